"""C05 - the control-flow graph contains every control path that can execute.

Skeleton programs with a decision oracle (vf.skel): bounded-exhaustive skeleton enumeration x
exhaustive decision vectors, plus Hypothesis-drawn deeper skeletons x drawn vectors. For each:
structural well-formedness of every graph cfg.build returns, statement-edge recomputation, and
the trace of an instrumented copy of the ORIGINAL function must be a path in the graph.
"""
import ast
import itertools

import hypothesis.strategies as st

from malt.pyct import cfg
from vf import common
from vf import instrument
from vf import skel

ID = 'C05'
LEVEL = 'exploration'
TECHNIQUE = ('bounded-exhaustive enumeration of control-flow skeletons x all decision vectors up to a length bound, plus '
             'Hypothesis-generated deeper skeletons; oracle: executed trace of an AST-instrumented original must be an '
             'entry-to-exit/raise path of cfg.build, structural invariants, independent recomputation of statement edges')
RULE = ('skeletons over {simple, if/else, while/for (+else), break, continue, return, raise, try/except(typed, as)/else/finally, '
        'with, nested def (called), lambda, class}; tests read a decision vector so (skeleton, vector) fixes one execution. '
        'Enumerated part: every skeleton with <= N statement nodes (jump never followed by dead code; no jumps inside finally) x '
        'every vector over {0,1,2} up to length L without trailing zeros. One evaluation = one (skeleton, vector) run + the '
        'static checks of that skeleton. Non-trivial = the executed trace crosses a finally by a jump, or has a raise caught by a '
        'handler, or takes >= 2 loop back-edges; distinct by (skeleton, vector).')
ASSUMPTIONS = [
    'exceptional propagation through finally blocks and exceptions arriving from calls are exempt (property text): checking of an activation stops there',
    'lambda-definition nodes are transparent in the path check (they execute while the statement containing them is evaluated)',
    'dead code = statements after a statement that cannot complete normally in the same block (own syntactic analysis)',
    'jumps inside finally bodies (PEP 765) are not generated',
]
LEVEL_TEXT = ('Exhaustive inside the stated skeleton-size and vector-length bounds (every skeleton, every decision vector), random beyond; '
              'each executed path is checked edge by edge against the graph built by the current tree.')
LEVEL_NOTE = 'Trusted: CPython executing the instrumented copy; vf/instrument.py probe placement; the syntactic dead-code analysis.'

EXCL_HANDLER_JUMPS = False   # F23 was repaired in /repo (fix: commit); jumps in handlers of try/finally are generated again


def budget(tier):
  if tier == 'thorough':
    return {'enum_nodes': 5, 'vec_len': 5, 'random': 6000, 'random_vectors': 24, 'wall_cap': 3000}
  return {'enum_nodes': 4, 'vec_len': 5, 'random': 1200, 'random_vectors': 12, 'wall_cap': 600}


# ---- static part ----------------------------------------------------------------------------------

class Prepared(object):
  pass


def prepare(src):
  """Parses, builds graphs, instruments. Raises on cfg.build failure (reported by callers)."""
  p = Prepared()
  full = skel.PRELUDE + '\n' + src
  tree = ast.parse(full)
  instrument.assign_ids(tree)
  p.tree = tree
  p.fn = [n for n in tree.body if isinstance(n, ast.FunctionDef) and n.name == 'f'][0]
  p.graphs = cfg.build(p.fn)
  p.cfg_vids = set()
  p.node_of = {}      # vid -> cfg Node (per graph; vids are unique across graphs)
  p.graph_of_fn = {}  # fn vid -> Graph
  for fn_node, g in p.graphs.items():
    p.graph_of_fn[fn_node._vid] = g
    for an, n in g.index.items():
      p.cfg_vids.add(an._vid)
      p.node_of[an._vid] = n
  t2 = instrument.instrument(tree, p.cfg_vids)
  p.code = compile(t2, '<c05>', 'exec')
  return p


def _cannot_complete(s):
  if isinstance(s, (ast.Return, ast.Raise, ast.Break, ast.Continue)):
    return True
  if isinstance(s, ast.If):
    return bool(s.orelse) and _block_cannot_complete(s.body) and _block_cannot_complete(s.orelse)
  if isinstance(s, ast.With):
    return _block_cannot_complete(s.body)
  if isinstance(s, (ast.While, ast.For)):
    return bool(s.orelse) and _block_cannot_complete(s.orelse) and not _has_own_break(s.body)
  if isinstance(s, ast.Try):
    if s.finalbody and _block_cannot_complete(s.finalbody):
      return True
    normal = _block_cannot_complete(s.body) or (bool(s.orelse) and _block_cannot_complete(s.orelse))
    if not _has_raise(s.body):
      return normal   # the graph models explicit raises only: handlers are entered from raise nodes
    return normal and all(_block_cannot_complete(h.body) for h in s.handlers)
  return False


_DEAD = set()   # vids currently known dead (fixpoint iteration in dead_vids)


def _has_own_break(stmts):
  for s in stmts:
    if getattr(s, '_vid', None) in _DEAD:
      continue
    if isinstance(s, ast.Break):
      return True
    if isinstance(s, (ast.While, ast.For)):
      if _has_own_break(s.orelse):
        return True
      continue
    if isinstance(s, (ast.FunctionDef, ast.ClassDef)):
      continue
    for f in ('body', 'orelse', 'finalbody'):
      if _has_own_break(getattr(s, f, None) or []):
        return True
    for h in getattr(s, 'handlers', []):
      if _has_own_break(h.body):
        return True
  return False


def _has_raise(stmts):
  for s in stmts:
    if isinstance(s, (ast.FunctionDef, ast.ClassDef)):
      continue
    for n in _walk_same_fn(s):
      if isinstance(n, ast.Raise) and n._vid not in _DEAD:
        return True
  return False


def _walk_same_fn(node):
  yield node
  for c in ast.iter_child_nodes(node):
    if isinstance(c, (ast.FunctionDef, ast.Lambda, ast.ClassDef)):
      yield c
      continue
    for x in _walk_same_fn(c):
      yield x


def _block_cannot_complete(stmts):
  return any(_cannot_complete(s) for s in stmts)


def dead_vids(fn):
  """vids of all AST nodes lexically inside dead statements of function fn (not nested fns' own)."""
  dead = set()

  def walk_block(stmts):
    cut = False
    for s in stmts:
      if cut:
        for n in ast.walk(s):
          dead.add(n._vid)
        continue
      for f in ('body', 'orelse', 'finalbody'):
        sub = getattr(s, f, None)
        if isinstance(sub, list) and not isinstance(s, (ast.FunctionDef, ast.ClassDef)):
          if f == 'orelse' and isinstance(s, ast.Try) and _block_cannot_complete(s.body):
            for st_ in sub:
              for n in ast.walk(st_):
                dead.add(n._vid)   # else clause of a try whose body never completes
          else:
            walk_block(sub)
      for h in getattr(s, 'handlers', []):
        if isinstance(s, ast.Try) and not _has_raise(s.body):
          for n in ast.walk(h):
            dead.add(n._vid)   # handler never entered in a graph that models explicit raises only
        else:
          walk_block(h.body)
      if _cannot_complete(s):
        cut = True
      # a loop whose body never completes or continues still exits by its test: not a cut

  _DEAD.clear()
  for _ in range(4):
    before = len(dead)
    walk_block(fn.body)
    _DEAD.update(dead)
    if len(dead) == before:
      break
  _DEAD.clear()
  return dead


def lexical_inside(stmt):
  """vids lexically within stmt, not descending into nested function/lambda/class bodies (the
  def/lambda/class node itself counts)."""
  out = set()

  def rec(n):
    out.add(n._vid)
    if isinstance(n, (ast.FunctionDef, ast.Lambda, ast.ClassDef)) and n is not stmt:
      # the arguments/body belong to another graph, but default exprs etc. are not CFG nodes anyway
      return
    for c in ast.iter_child_nodes(n):
      rec(c)
  rec(stmt)
  return out


def static_checks(p, fails):
  # one graph per FunctionDef / Lambda
  fns = [n for n in ast.walk(p.fn) if isinstance(n, (ast.FunctionDef, ast.Lambda))]
  if set(f._vid for f in fns) != set(f._vid for f in p.graphs):
    fails.append(('static:graph-per-function', {'functions': len(fns), 'graphs': len(p.graphs)}))
  for fn_node, g in p.graphs.items():
    nodes = list(g.index.values())
    nset = set(nodes)
    # mirror links
    for a in nodes:
      for b in a.next:
        if b not in nset or a not in b.prev:
          fails.append(('static:next-without-prev', {'a': repr(a), 'b': repr(b)}))
      for b in a.prev:
        if b not in nset or a not in b.next:
          fails.append(('static:prev-without-next', {'a': repr(a), 'b': repr(b)}))
    # entry
    if g.entry not in nset:
      fails.append(('static:entry-not-a-node', repr(g.entry)))
    elif len(list(g.entry.prev)) != 0 and isinstance(fn_node, ast.FunctionDef):
      # the entry (arguments) may not be re-entered
      fails.append(('static:entry-has-predecessor', repr(list(g.entry.prev))))
    want_entry = fn_node.args
    if g.entry.ast_node is not want_entry:
      fails.append(('static:entry-not-arguments', repr(g.entry)))
    # exit / error subsets
    for x in g.exit:
      if x not in nset:
        fails.append(('static:exit-not-a-node', repr(x)))
    for x in g.error:
      if x not in nset and x not in g.index:
        fails.append(('static:error-not-a-node', repr(x)))
    # reachability
    seen = set()
    work = [g.entry]
    while work:
      n = work.pop()
      if n in seen:
        continue
      seen.add(n)
      work.extend(n.next)
    if isinstance(fn_node, ast.FunctionDef):
      dead = dead_vids(fn_node)
      for n in nodes:
        if n not in seen and n.ast_node._vid not in dead:
          fails.append(('static:unreachable-live-node', repr(n)))
    # statement edges recomputed from node.next + lexical containment
    if isinstance(fn_node, ast.FunctionDef):
      for s in ast.walk(fn_node):
        if not isinstance(s, (ast.If, ast.While, ast.For, ast.Try, ast.ExceptHandler)):
          continue
        if _owner_fn(p, s) is not fn_node:
          continue
        inside_vids = lexical_inside(s)
        inside = set(n for n in nodes if n.ast_node._vid in inside_vids)
        exp_next = set(b for a in inside for b in a.next if b not in inside)
        exp_prev = set(a for b in inside for a in b.prev if a not in inside)
        got_next = set(g.stmt_next.get(s, ()))
        got_prev = set(g.stmt_prev.get(s, ()))
        if not inside:
          continue
        if got_next != exp_next:
          fails.append(('static:stmt_next', {'stmt': type(s).__name__, 'got': sorted(map(repr, got_next)), 'want': sorted(map(repr, exp_next))}))
        if got_prev != exp_prev:
          fails.append(('static:stmt_prev', {'stmt': type(s).__name__, 'got': sorted(map(repr, got_prev)), 'want': sorted(map(repr, exp_prev))}))


def _owner_fn(p, node):
  """Innermost FunctionDef/Lambda containing node (cached parent map)."""
  if not hasattr(p, 'parent'):
    p.parent = {}
    for n in ast.walk(p.tree):
      for c in ast.iter_child_nodes(n):
        p.parent[c] = n
  cur = p.parent.get(node)
  while cur is not None and not isinstance(cur, (ast.FunctionDef, ast.Lambda)):
    cur = p.parent.get(cur)
  return cur


# ---- dynamic part ---------------------------------------------------------------------------------

def run_vector(p, vec):
  tr = instrument.Tracer()
  ns = instrument.runtime_namespace(tr)
  exec(p.code, ns)
  ns['_D'][:] = list(vec)
  outcome = 'ok'
  try:
    ns['f']()
  except RecursionError:
    raise
  except Exception as e:
    outcome = type(e).__name__
  return tr, outcome


def _edge_ok(a, b):
  """b reachable from a through lambda-definition nodes only."""
  if b in a.next:
    return True
  work = [n for n in a.next if isinstance(n.ast_node, ast.Lambda)]
  seen = set()
  while work:
    n = work.pop()
    if n in seen:
      continue
    seen.add(n)
    if b in n.next:
      return True
    work.extend(m for m in n.next if isinstance(m.ast_node, ast.Lambda))
  return False


def check_trace(p, tr, fails, stats):
  for act in tr.activations:
    g = p.graph_of_fn.get(act.fn_vid)
    if g is None:
      continue
    prev = None
    stopped = False
    last = None
    for ev in act.events:
      if ev[0] == 'stop':
        stopped = True
        stats['stopped'] = stats.get('stopped', 0) + 1
        break
      if ev[0] == 'fin':
        continue
      if ev[0] != 'n':
        continue
      n = p.node_of.get(ev[1])
      if n is None:
        fails.append(('trace:probe-of-non-node', ev[1]))
        return
      if prev is None:
        # first executed node must be reachable from entry through lambda nodes / be the entry
        if n is not g.entry:
          fails.append(('trace:first-node-not-entry', {'first': repr(n), 'entry': repr(g.entry)}))
          return
      else:
        if not _edge_ok(prev, n):
          kind = type(prev.ast_node).__name__
          fails.append(('trace:missing-edge:from-%s' % kind,
                        {'from': repr(prev), 'to': repr(n), 'successors': sorted(map(repr, prev.next))}))
          return
        a, b = prev.ast_node, n.ast_node
        if isinstance(a, ast.Raise):
          stats['raise_caught'] = stats.get('raise_caught', 0) + 1
        if isinstance(b, ast.expr) and getattr(b, '_is_loop_header', False) and not isinstance(a, ast.arguments):
          pass
      prev = n
      last = n
    if not stopped and last is not None:
      if last not in g.exit and not isinstance(last.ast_node, ast.Raise):
        # a lambda node may trail the last statement? no: lambda nodes precede their statement
        fails.append(('trace:ends-off-exit:%s' % type(last.ast_node).__name__,
                      {'last': repr(last), 'exits': sorted(map(repr, g.exit))}))
        return


def trace_features(p, tr):
  """(back_edges, jump_through_finally, raise_caught) for the non-triviality rule."""
  back = 0
  jf = False
  rc = False
  for act in tr.activations:
    prev = None
    seen_hdr = {}
    for ev in act.events:
      if ev[0] == 'stop':
        break
      if ev[0] == 'fin':
        if prev is not None and isinstance(prev.ast_node, (ast.Return, ast.Break, ast.Continue)) and not ev[2]:
          jf = True
        continue
      if ev[0] != 'n':
        continue
      n = p.node_of.get(ev[1])
      if n is None:
        continue
      if prev is not None and isinstance(prev.ast_node, ast.Raise):
        rc = True
      seen_hdr[ev[1]] = seen_hdr.get(ev[1], 0) + 1
      if seen_hdr[ev[1]] > 1:
        back += 1
      prev = n
  return back, jf, rc


def check_skeleton(block, vectors, acc=None, want_fail_detail=True):
  """Runs all checks for one skeleton over `vectors`. Returns list of (bucket, detail, vec)."""
  src = skel.source(block)
  out = []
  try:
    p = prepare(src)
  except Exception as e:
    from vf import harness
    return [('build:' + harness.exc_bucket(e), {'exc': repr(e)[:300]}, None)], src, 0
  fails = []
  static_checks(p, fails)
  seen = set()
  for b, d in fails:
    if b not in seen:
      seen.add(b)
      out.append((b, d, None))
  nruns = 0
  for vec in vectors:
    tr, outcome = run_vector(p, vec)
    nruns += 1
    fl = []
    stats = {}
    check_trace(p, tr, fl, stats)
    if acc is not None:
      back, jf, rc = trace_features(p, tr)
      nt = jf or rc or back >= 2
      cls = ['outcome=' + ('ok' if outcome == 'ok' else 'exc')]
      if jf:
        cls.append('jump_through_finally')
      if rc:
        cls.append('raise_caught_by_handler')
      if back >= 2:
        cls.append('back_edges>=2')
      if stats.get('stopped'):
        cls.append('stopped_at_exempt_region')
      sample = None
      if nt and (len(acc.samples) < acc.MAX_SAMPLES or skel.size(block) > (acc.biggest[0] if acc.biggest else 0)):
        sample = {'src': src, 'vector': list(vec)}
      acc.case(key=common.h8([src, list(vec)]), nontrivial=nt, classes=cls, sample=sample, size=skel.size(block))
    for b, d in fl:
      if b not in seen:
        seen.add(b)
        out.append((b, d, list(vec)))
  return out, src, nruns


def has_handler_jump_with_finally(block):
  for s in block:
    if s[0] == 'try':
      if s[4] is not None:
        for ti, as_, hb in s[2]:
          if _has_jump(hb):
            return True
      parts = [s[1]] + [h[2] for h in s[2]] + [x for x in (s[3], s[4]) if x is not None]
    elif s[0] in ('if', 'while', 'for'):
      parts = [s[1]] + ([s[2]] if s[2] is not None else [])
    elif s[0] in ('with', 'def'):
      parts = [s[1]]
    else:
      parts = []
    for pt in parts:
      if has_handler_jump_with_finally(pt):
        return True
  return False


def _has_jump(block):
  for s in block:
    if s[0] in ('break', 'continue', 'return'):
      return True
    if s[0] == 'try':
      parts = [s[1]] + [h[2] for h in s[2]] + [x for x in (s[3], s[4]) if x is not None]
    elif s[0] in ('if', 'while', 'for'):
      parts = [s[1]] + ([s[2]] if s[2] is not None else [])
    elif s[0] == 'with':
      parts = [s[1]]
    else:
      parts = []
    if any(_has_jump(pt) for pt in parts):
      return True
  return False


def shard(ctx, acc):
  b = ctx.budget
  vecs = list(skel.vectors(b['vec_len']))
  # 1. bounded-exhaustive part
  for i, block in enumerate(skel.enumerated(b['enum_nodes'])):
    if i % ctx.nshards != ctx.shard:
      continue
    if EXCL_HANDLER_JUMPS and has_handler_jump_with_finally(block):
      acc.count('excluded:no_jump_in_handler_with_finally')
      continue
    acc.count('enumerated_skeletons')
    fl, src, n = check_skeleton(block, vecs, acc)
    for bkt, d, vec in fl:
      acc.fail(bkt, {'src': src, 'vector': vec}, d)
  # 2. random deeper skeletons
  strat = st.tuples(skel.skeletons(jumps_in_handlers=not EXCL_HANDLER_JUMPS),
                    st.lists(st.lists(st.integers(0, 3), max_size=12), min_size=b['random_vectors'], max_size=b['random_vectors']))

  def body(sv):
    block, vs = sv
    acc.count('random_skeletons')
    if EXCL_HANDLER_JUMPS and has_handler_jump_with_finally(block):
      acc.count('excluded:no_jump_in_handler_with_finally')
      return
    fl, src, n = check_skeleton(block, [tuple(v) for v in vs] + [()], acc)
    for bkt, d, vec in fl:
      acc.fail(bkt, {'src': src, 'vector': vec}, d)

  common.hyp_run(ctx, strat, body, ctx.share('random'))


def replay(case):
  src = case['src']
  try:
    p = prepare(src)
  except Exception as e:
    from vf import harness
    return [{'bucket': 'build:' + harness.exc_bucket(e), 'detail': {'exc': repr(e)[:300]}}]
  fails = []
  static_checks(p, fails)
  vecs = [tuple(case['vector'])] if case.get('vector') is not None else list(skel.vectors(5))
  for vec in vecs:
    tr, outcome = run_vector(p, vec)
    check_trace(p, tr, fails, {})
  out, seen = [], set()
  for b, d in fails:
    if b not in seen:
      seen.add(b)
      out.append({'bucket': b, 'detail': d})
  return out


def shrink(case, bucket, deadline):
  from vf import shrink as shrinker

  def still(src):
    c = dict(case, src=src)
    return any(f['bucket'] == bucket for f in replay(c))

  # the function is at top level: wrap/unwrap is not needed, shrink_src works on any module
  new = shrinker.shrink_src(case['src'], still, deadline)
  return dict(case, src=new)
