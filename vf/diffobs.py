"""Differential observation of a generated program: original vs converted (DESIGN 2.2)."""
import ast
import functools
import signal
import sys

import malt
from malt.core import converter
from vf import harness
from vf import rt

NAMEERR = (NameError,)  # UnboundLocalError is a subclass


class Timeout(BaseException):
  pass


def _alarm(signum, frame):
  raise Timeout()


class time_limit(object):
  """Safety net against a run that no longer terminates. The budget is CPU time of this process
  (ITIMER_PROF), not wall-clock time: a loaded machine cannot turn a terminating run into a
  'timeout' outcome, while a non-terminating one still burns its budget."""

  def __init__(self, seconds):
    self.seconds = seconds

  def __enter__(self):
    self.old = signal.signal(signal.SIGPROF, _alarm)
    # repeating: if the first Timeout is swallowed by the program under test (a finally / __exit__
    # that loops itself, an exception raised inside a destructor), the next one follows a second later
    signal.setitimer(signal.ITIMER_PROF, self.seconds, 1.0)

  def __exit__(self, *a):
    while True:
      try:
        signal.setitimer(signal.ITIMER_PROF, 0)
        signal.signal(signal.SIGPROF, self.old)
        break
      except Timeout:
        continue   # a repeated alarm arrived while disarming
    return False


def _raised_at_del(e):
  import linecache
  tb = e.__traceback__
  last = None
  while tb is not None:
    last = tb
    tb = tb.tb_next
  if last is None:
    return False
  line = linecache.getline(last.tb_frame.f_code.co_filename, last.tb_lineno).strip()
  return line.startswith('del ')


def fresh_args(inp):
  return (inp[0], inp[1], rt.O(), {'k': 7}, [1, 2, 3])


def norm_value(v, depth=0):
  if callable(v) and not isinstance(v, type):
    if depth > 1:
      return ('fn',)
    try:
      r = v(2)
      return ('fn', 'ok', norm_value(r, depth + 1))
    except NAMEERR as e:
      if _raised_at_del(e):
        return ('out-of-class', 'del-of-unbound-name')
      return ('fn', 'exc', 'NameError')
    except Exception as e:
      return ('fn', 'exc', type(e).__name__)
  if isinstance(v, (list, tuple)):
    return (type(v).__name__,) + tuple(norm_value(x, depth + 1) for x in v)
  if isinstance(v, (int, bool, str, float, type(None))):
    return (type(v).__name__, repr(v))
  return (type(v).__name__, repr(v))


def exc_name(e):
  if isinstance(e, NAMEERR):
    return 'NameError'
  return type(e).__name__


def _nrepr(v):
  """repr for post-state entries; callables (function objects stored by the program) have no
  stable repr and are compared by kind only (their behaviour shows in the log / result)."""
  if isinstance(v, functools.partial):
    return '<partial args=%s keywords=%s>' % (_nrepr(list(v.args)), _nrepr(sorted(v.keywords.items())))
  if callable(v) and not isinstance(v, type):
    return '<callable>'
  if isinstance(v, (list, tuple)) and any(callable(x) and not isinstance(x, type) for x in v):
    return '%s(%s)' % (type(v).__name__, ', '.join(_nrepr(x) for x in v))
  return repr(v)


def _mod_base(mod):
  """Module namespace as it was before the first run (taken once per module): the reference for
  'module attributes created or changed by the run', and for resetting the module between runs."""
  base = mod.__dict__.get('__vf_base__')
  if base is None:
    base = dict((k, v) for k, v in mod.__dict__.items() if not k.startswith('__'))
    pk = dict((k, (v.args, dict(v.keywords))) for k, v in base.items() if isinstance(v, functools.partial))
    mod.__dict__['__vf_base__'] = base
    mod.__dict__['__vf_partials__'] = pk
  return base


def _mod_reset(mod):
  base = _mod_base(mod)
  for k in list(mod.__dict__):
    if k.startswith('__'):
      continue
    if k not in base:
      del mod.__dict__[k]
    elif mod.__dict__[k] is not base[k]:
      mod.__dict__[k] = base[k]
  for k, (args_, kw) in mod.__dict__['__vf_partials__'].items():
    # a partial's stored keywords are a mutable dict (observable state of the object)
    cur = base[k].keywords
    if cur != kw:
      cur.clear()
      cur.update(kw)


def _mod_post(mod, skip):
  """Module attributes created, rebound or deleted by the run + state of module-level partials."""
  base = _mod_base(mod)
  out = []
  for k, v in mod.__dict__.items():
    if k.startswith('__') or k in skip:
      continue
    if k not in base:
      out.append((k, 'new', _nrepr(v)))
    elif v is not base[k] and not (type(v) is type(base[k]) and isinstance(v, (int, str)) and v == base[k]):
      out.append((k, 'rebound', _nrepr(v)))
  for k in base:
    if k not in mod.__dict__ and k not in skip:
      out.append((k, 'deleted', ''))
  for k in mod.__dict__['__vf_partials__']:
    out.append((k, 'partial', _nrepr(base[k])))
  return repr(sorted(out))


def observe(fn, inp, mod, cells, limit=10.0, gnames=('G0', 'G1')):
  """Runs fn on fresh arguments; returns {'outcome','log','post','prop'}."""
  rt.reset()
  _mod_reset(mod)
  setattr(mod, gnames[0], 0)
  setattr(mod, gnames[1], 5)
  args = fresh_args(inp)
  try:
    with time_limit(limit):
      try:
        r = fn(*args)
        outcome = ('ok', norm_value(r))
      except Timeout:
        raise
      except BaseException as e:  # noqa
        outcome = ('exc', exc_name(e))
        if isinstance(e, NAMEERR) and _raised_at_del(e):
          # `del` of an unbound name: never generated (the generator only deletes definitely
          # bound names); reachable only through shrinking. Outside the class - not compared.
          outcome = ('out-of-class', 'del-of-unbound-name')
  except Timeout:
    outcome = ('timeout',)
  log = [tuple(x) for x in rt.LOG]
  try:
    cv = cells()
  except NAMEERR:
    cv = ('unbound-cell',)
  post = {'o': sorted((k, _nrepr(v)) for k, v in args[2].__dict__.items()), 'd': repr(sorted(args[3].items(), key=repr)),
          'l': repr(args[4]), 'G0': repr(getattr(mod, gnames[0], '<deleted>')), 'G1': repr(getattr(mod, gnames[1], '<deleted>')),
          'cells': repr(cv), 'mod': _mod_post(mod, gnames)}
  prop = log.index(rt.PROP) if rt.PROP in log else None
  return {'outcome': outcome, 'log': log, 'post': post, 'prop': prop}


def compare(o, c):
  """Returns None if the converted observation c agrees with the original o under the C01 rules,
  else (bucket, detail). Also returns 'exempt' marker via the second element of a tuple."""
  if o['outcome'][0] in ('timeout', 'out-of-class') or 'out-of-class' in repr(o['outcome']):
    return None  # generator slip / shrinker left the class: never a violation
  if o['prop'] is not None:
    # a finally / __exit__ ran while an exception propagated: only the effects before it are compared
    k = o['prop']
    if c['log'][:k] != o['log'][:k]:
      return ('log-before-propagation', _logdiff(o['log'][:k], c['log'][:k]))
    return None
  if c['outcome'] != o['outcome']:
    return ('outcome:%s->%s' % (_short(o['outcome']), _short(c['outcome'])),
            {'orig': o['outcome'], 'conv': c['outcome'], 'orig_log_tail': o['log'][-4:], 'conv_log_tail': c['log'][-4:]})
  if c['log'] != o['log']:
    return ('log|orig=' + _short(o['outcome']), _logdiff(o['log'], c['log']))
  if c['post'] != o['post']:
    ks = sorted(k for k in o['post'] if o['post'][k] != c['post'][k])
    return ('post:' + ','.join(ks) + '|orig=' + _short(o['outcome']), {'orig': dict((k, o['post'][k]) for k in ks), 'conv': dict((k, c['post'][k]) for k in ks)})
  return None


def _short(outcome):
  if outcome[0] == 'ok':
    return 'ok'
  return ':'.join(str(x) for x in outcome)


def _logdiff(a, b):
  i = 0
  while i < len(a) and i < len(b) and a[i] == b[i]:
    i += 1
  return {'first_diff_at': i, 'orig': a[max(0, i - 2):i + 3], 'conv': b[max(0, i - 2):i + 3], 'len_orig': len(a), 'len_conv': len(b)}


def features_arg(names, spelling):
  """Builds the optional-features argument from names in the requested spelling."""
  fs = [converter.Feature[n] for n in names]
  if not fs:
    return None if spelling != 'tuple' else ()
  if len(fs) == 1 and spelling == 'single':
    return fs[0]
  if spelling == 'list':
    return list(fs)
  return tuple(fs)


def convert_entry(fn, config):
  """config: {'entry': 'to_graph'|'convert', 'recursive': bool, 'features': [names], 'spelling': str}"""
  feats = features_arg(config.get('features', []), config.get('spelling', 'tuple'))
  if config.get('entry', 'to_graph') == 'to_graph':
    return malt.to_graph(fn, recursive=config.get('recursive', True), experimental_optional_features=feats)
  return malt.convert(recursive=config.get('recursive', True), optional_features=feats)(fn)


def structure(src, fname='prog'):
  """Static facts about the function under test: (max control nesting, has non-tail jump, n compound)."""
  tree = ast.parse(src)
  fn = None
  for n in ast.walk(tree):
    if isinstance(n, ast.FunctionDef) and n.name == fname:
      fn = n
      break
  if fn is None:
    return (0, False, 0)
  best = [0, False, 0]

  def walk(stmts, depth, tail):
    for i, s in enumerate(stmts):
      last = tail and i == len(stmts) - 1
      if isinstance(s, (ast.If, ast.While, ast.For, ast.Try, ast.With)):
        best[2] += 1
        best[0] = max(best[0], depth + 1)
        for f in ('body', 'orelse', 'finalbody'):
          walk(getattr(s, f, []) or [], depth + 1, False)
        for h in getattr(s, 'handlers', []):
          walk(h.body, depth + 1, False)
      elif isinstance(s, (ast.Break, ast.Continue)):
        best[1] = True
      elif isinstance(s, ast.Return) and not last:
        best[1] = True
      elif isinstance(s, ast.FunctionDef):
        walk(s.body, depth, True)

  walk(fn.body, 0, True)
  return tuple(best)


class Spy(object):
  """Counts control-flow operator invocations on the real ag__ module (installed once per worker)."""

  def __init__(self):
    self.counts = {}
    self.callers = set()
    self.installed = False

  def install(self, names=('if_stmt', 'while_stmt', 'for_stmt')):
    if self.installed:
      return
    ag = harness.real_ag()
    for n in names:
      real = getattr(ag, n)

      def wrapper(*a, __real=real, __n=n, **k):
        self.counts[__n] = self.counts.get(__n, 0) + 1
        self.callers.add(sys._getframe(1).f_code.co_name)
        return __real(*a, **k)
      setattr(ag, n, wrapper)
    self.installed = True

  def reset(self):
    self.counts = {}
    self.callers = set()


SPY = Spy()
