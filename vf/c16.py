"""C16 - the conversion-status context is restored on every exit and isolated per thread.

Generator: call trees (Hypothesis) rendered to a real module that only uses the public API
(`malt.convert`, `malt.experimental.do_not_convert`, `malt.internal.convert`, `malt.to_graph`,
`malt.control_status_ctx`, `ag_ctx.ControlStatusCtx` blocks).  Every node is a `def` or a `lambda`
that logs the *ctx object itself* on entry, before and after each child call, when it catches and
when it leaves; it optionally raises after its children; `def` nodes optionally catch per child.
A case is a small pool of trees plus a set of runners (the calling thread and 0..N fresh threads,
each optionally inside an outer `ControlStatusCtx` block, each running its tree 1..2 times) started
behind a barrier.  How the threads come to life is drawn too (`case['spawn']`, see _spawner): one
threading.Thread per runner / a ThreadPoolExecutor (optionally smaller than the number of runners, so
pool threads are reused; optionally with an initializer that replays the submitter's context
variables) / asyncio.to_thread; each runner optionally under contextvars.copy_context().run (a copy,
or a copy of a copy); the spawning thread is the calling thread or a fresh intermediate thread, has
or has not looked at its status before, and is optionally inside a ControlStatusCtx block or a
do_not_convert call while the workers live.

Oracle:
  identity   every observation made inside one activation of a node is the very same object
             (model free: before == after every call, returned or raised-and-caught);
  status     do_not_convert => DISABLED, user requested conversion => ENABLED, ... (model below);
  ctx-object which object is current on entry (caller's / the ctx handed to convert / a fresh one);
  trace      the event sequence (who ran, who caught which exception) is the modelled one;
  stack      top object and stack length after the tree equal those before it;
  thread     no thread observes a ctx object seen by another thread (objects are attributed to the OS
             thread that saw them: caller, spawner, workers); a fresh thread - however it was started
             and whatever contextvars context it runs under - starts with its own UNSPECIFIED default,
             which is none of the spawning thread's objects; the spawning (and the calling) thread's
             status is untouched while threads run; a pool thread that runs a second runner still has
             the status object it had for the first.
"""
import re
import threading

from hypothesis import strategies as st

import malt
from malt.core import ag_ctx
from vf import common
from vf import harness

ID = 'C16'
LEVEL = 'exploration'
TECHNIQUE = ('property-based testing with a trace oracle: Hypothesis-generated call trees (convert / do_not_convert / '
             'internal.convert x ctx source / to_graph / ControlStatusCtx blocks / plain; def and lambda bodies; raise at any '
             'node, catch at any def ancestor) rendered to modules and executed on 1..N threads (threading.Thread / '
             'ThreadPoolExecutor / asyncio.to_thread workers, with fresh or copied contextvars contexts, spawned by the calling '
             'or an intermediate thread that may sit inside a status block); the logged ctx objects are '
             'compared by identity around every call and against an executable model of the documented status policy')
RULE = ('a case (pool of trees + runner set) is non-trivial when, in at least one executed tree, a generated exception '
        'propagates out of >= 2 calls that each pushed at least one status context (per the model) before it is caught; '
        'distinct by the hash of the case (trees + runner specs); evaluations = executed tree runs (runner x round)')
ASSUMPTIONS = [
    'the per-thread stack is inspected through ag_ctx._control_ctx() (private accessor) for the length clause only; every '
    'other observation uses the public malt.control_status_ctx()',
    'thread interleavings are free running (barrier start, no owned scheduling points): isolation is per-thread state, so the '
    'deterministic part of the thread clause (object disjointness, fresh default) does not depend on the schedule',
    'the expected status is the documented policy as written in DESIGN 4.16 (convert() called while DISABLED runs unconverted '
    'and stays DISABLED; to_graph output always enters ENABLED)',
    'asyncio tasks / greenlets / generators suspended inside a context are not generated: asyncio only appears as '
    'asyncio.to_thread (worker threads running under a copy of the awaiting task\'s context); the event-loop thread itself never '
    'suspends inside a status context',
    'a thread is a thread however it was started: workers started through contextvars.copy_context().run, asyncio.to_thread '
    'or a pool whose initializer replays the submitter\'s context variables are held to the same clause as plain '
    'threading.Thread workers (own UNSPECIFIED default, no object in common with any other thread), also when the spawning '
    'thread is inside a ControlStatusCtx block / do_not_convert call at that time',
    'runners that share a reused pool thread (pool smaller than the number of runners, no start barrier) run one after the '
    'other on it; objects are attributed to the OS thread, so these runners may (must) see the same default object',
    'each node function is activated at most once per tree run (no loops / recursion over the same node)',
]
LEVEL_TEXT = ('Randomised exploration of the call-tree x exception-placement x thread-count space with a complete trace oracle per '
              'run (every observation compared, not sampled); not exhaustive: depth <= 5, fan-out <= 3, <= 16 threads.')
LEVEL_NOTE = ('Trusted: CPython threading.local / list semantics, the rendered probe statements (log.append of '
              'malt.control_status_ctx()), the model in this file. Outside: status contexts held across an await, interpreter '
              'shutdown, contexts entered by generators, thread idents reused by later threads, schedule-dependent races inside one thread-local stack (there is none by construction).')

_KEEP = []           # modules stay loaded (see c01: code-object keyed weak cache)
STATUSES = ('ENABLED', 'DISABLED', 'UNSPECIFIED')
_BOOM = re.compile(r'BOOM<(\d+)>')


def budget(tier):
  if tier == 'thorough':
    return {'trees': 16000, 'max_depth': 5, 'max_nodes': 20, 'max_fan': 3, 'max_threads': 16, 'wall_cap': 1100,
            'shrink_s': 60}
  return {'trees': 1200, 'max_depth': 5, 'max_nodes': 10, 'max_fan': 3, 'max_threads': 16, 'wall_cap': 300, 'shrink_s': 15}


# ------------------------------------------------------------------------------------------------
# tree representation
#
# node  = {'form': 'def'|'lam', 'wrap': {...}, 'ch': [node...], 'catch': [bool...], 'raises': bool,
#          'fin': [bool...]   (def only) the call sits in try/finally and the finally clause logs too,
#          'ctl': [None|'if'|'for'|'while'...]  the call sits inside that construct (lambda: 'if' = conditional expr),
#          'rctl': None|'if'|'for'|'while'      same for the raise statement (def only)}
# wrap  = {'k': 'plain'} | {'k': 'dnc'} | {'k': 'tograph', 'rec': b, 'feat': F|None}
#       | {'k': 'conv', 'rec': b, 'ur': b, 'cctx': src|None, 'feat': F|None}
#       | {'k': 'iconv', 'src': src, 'cbd': b, 'ur': b}
#       | {'k': 'cblock', 'status': S, 'inline': b}
# src   = ['fresh', S] | ['current'] | ['anc', up] | ['top']
# F     = optional feature name; NAME_SCOPES / AUTO_CONTROL_DEPS are public Feature members this fork
#         does not support: the converted function raises AssertionError while building its function
#         scope, i.e. before its body runs (an exception out of converted code like any other)
# The root of a tree is the driver: a plain def node that catches every child.
UNSUPPORTED = ('NAME_SCOPES', 'AUTO_CONTROL_DEPS')


def number(tree):
  """Assigns preorder ids (root = 0) and parent links on a deep copy."""
  import copy
  root = copy.deepcopy(tree)
  cnt = [0]

  def rec(n, parent):
    n['id'] = cnt[0]
    cnt[0] += 1
    n['parent'] = parent
    n.setdefault('catch', [False] * len(n['ch']))
    for c in n['ch']:
      rec(c, n)
  rec(root, None)
  return root


def nodes_of(root):
  out = []

  def rec(n):
    out.append(n)
    for c in n['ch']:
      rec(c)
  rec(root)
  return out


def _anc(node, up):
  """The up-th ancestor above the *caller* of `node` (caller = node['parent']); None if absent."""
  a = node['parent']
  for _ in range(up):
    if a is None:
      return None
    a = a['parent']
  return a


CUR = 'malt.control_status_ctx()'


def _src_expr(node, src):
  if src[0] == 'fresh':
    return 'ag_ctx.ControlStatusCtx(ag_ctx.Status.%s)' % src[1]
  if src[0] == 'current':
    return CUR
  if src[0] == 'anc':
    a = _anc(node, src[1])
    if a is not None:
      return 'env[%d]' % a['id']
    return "env['top']"
  return "env['top']"


def _feat_expr(w):
  return 'malt.experimental.Feature.%s' % w['feat'] if w.get('feat') else 'None'


def _static_wrapper(n):
  """Module-level `cK = ...` line for wrappers that do not depend on the call site; None otherwise."""
  w, k = n['wrap'], n['id']
  if w['k'] == 'plain':
    return 'c%d = f%d' % (k, k)
  if w['k'] == 'dnc':
    return 'c%d = malt.experimental.do_not_convert(f%d)' % (k, k)
  if w['k'] == 'tograph':
    return 'c%d = malt.to_graph(f%d, recursive=%s, experimental_optional_features=%s)' % (k, k, w['rec'], _feat_expr(w))
  if w['k'] == 'conv' and w.get('cctx') is None:
    return 'c%d = malt.convert(recursive=%s, user_requested=%s, optional_features=%s)(f%d)' % (
        k, w['rec'], w['ur'], _feat_expr(w), k)
  if w['k'] == 'cblock' and not _inline_block(n):
    return ('def c%d(log, env):\n  with ag_ctx.ControlStatusCtx(ag_ctx.Status.%s):\n    return f%d(log, env)'
            % (k, w['status'], k))
  return None


def _inline_block(n):
  return n['wrap']['k'] == 'cblock' and n['wrap'].get('inline') and n['parent'] is not None and n['parent']['form'] == 'def'


def _call_expr(n):
  w, k = n['wrap'], n['id']
  if w['k'] == 'conv' and w.get('cctx') is not None:
    return 'malt.convert(recursive=%s, user_requested=%s, optional_features=%s, conversion_ctx=%s)(f%d)(log, env)' % (
        w['rec'], w['ur'], _feat_expr(w), _src_expr(n, w['cctx']), k)
  if w['k'] == 'iconv':
    return 'malt.internal.convert(f%d, %s, convert_by_default=%s, user_requested=%s)(log, env)' % (
        k, _src_expr(n, w['src']), w['cbd'], w['ur'])
  if _inline_block(n):
    return 'f%d(log, env)' % k
  return 'c%d(log, env)' % k


def _ctl(n, i):
  c = (n.get('ctl') or [None] * len(n['ch']))[i]
  if n['form'] == 'lam' and c != 'if':
    return None
  return c


def _fin(n, i):
  return n['form'] == 'def' and bool((n.get('fin') or [False] * len(n['ch']))[i])


def render(tree):
  root = number(tree)
  lines = ['import sys', 'import malt', 'from malt.core import ag_ctx', '']
  wrappers = []
  for n in nodes_of(root):
    k = n['id']
    if n['form'] == 'lam':
      parts = ['env.update({%d: %s})' % (k, CUR), "log.append(('enter', %d, None, %s))" % (k, CUR)]
      for i, c in enumerate(n['ch']):
        parts.append("log.append(('pre', %d, %d, %s))" % (k, i, CUR))
        if _ctl(n, i) == 'if':
          parts.append('(%s if env is not None else None)' % _call_expr(c))
        else:
          parts.append(_call_expr(c))
        parts.append("log.append(('post', %d, %d, %s))" % (k, i, CUR))
      parts.append("log.append(('leave', %d, None, %s))" % (k, CUR))
      if n['raises']:
        parts.append("{}['BOOM' + '<%d>']" % k)  # split so that quoted source lines never contain the marker
      lines.append('f%d = lambda log, env: (%s, %d)[-1]' % (k, ', '.join(parts), k))
      lines.append('')
    else:
      b = ['def f%d(log, env):' % k,
           '  cx = %s' % CUR,
           '  env[%d] = cx' % k,
           "  log.append(('enter', %d, None, cx))" % k]

      def nest(ind, ctl, tag):
        """Opens the control-flow construct `ctl` (the converter turns it into an operator call)."""
        if ctl == 'if':
          b.append(ind + 'if env is not None:')
        elif ctl == 'for':
          b.append(ind + 'for it_%s in (0,):' % tag)
        elif ctl == 'while':
          b.append(ind + 'w_%s = 0' % tag)
          b.append(ind + 'while w_%s < 1:' % tag)
          b.append(ind + '  w_%s += 1' % tag)
        return ind + '  ' if ctl else ind

      for i, c in enumerate(n['ch']):
        b.append("  log.append(('pre', %d, %d, %s))" % (k, i, CUR))
        ind = '  '
        guarded = n['catch'][i] or _fin(n, i)
        if guarded:
          b.append('  try:')
          ind = '    '
        ind = nest(ind, _ctl(n, i), str(i))
        if _inline_block(c):
          b.append(ind + 'with ag_ctx.ControlStatusCtx(ag_ctx.Status.%s):' % c['wrap']['status'])
          b.append(ind + '  ' + _call_expr(c))
        else:
          b.append(ind + _call_expr(c))
        if n['catch'][i]:
          b.append('  except Exception:')
          b.append("    log.append(('caught', %d, %d, %s, sys.exc_info()[1]))" % (k, i, CUR))
        if _fin(n, i):
          b.append('  finally:')
          b.append("    log.append(('fin', %d, %d, %s))" % (k, i, CUR))
        b.append("  log.append(('post', %d, %d, %s))" % (k, i, CUR))
      b.append("  log.append(('leave', %d, None, %s))" % (k, CUR))
      if n['raises']:
        ind = nest('  ', n.get('rctl'), 'r')
        b.append(ind + "raise ValueError('BOOM' + '<%d>')" % k)
      b.append('  return %d' % k)
      lines.extend(b)
      lines.append('')
    sw = _static_wrapper(n)
    if sw is not None and k != 0:
      wrappers.append(sw)
  lines.extend(wrappers)
  lines.append('')
  return '\n'.join(lines)


# ------------------------------------------------------------------------------------------------
# model


class Tok(object):
  __slots__ = ('status', 'why')

  def __init__(self, status, why):
    self.status = status
    self.why = why


class _Boom(Exception):
  def __init__(self, node):
    Exception.__init__(self)
    self.node = node
    self.crossed = 0  # context-pushing calls unwound so far


def simulate(root, init_stack):
  """Expected events [(ev, node id, idx, Tok, extra)] for one run of the (numbered) driver node.

  Also returns info: max number of context-pushing calls an exception crossed before being caught,
  per-node entry relation ('caller' / 'passed' / 'fresh'), number of pushes.
  """
  ev = []
  info = {'max_crossed': 0, 'rel': {}, 'pushes': 0, 'exc_caught': 0, 'entered': 0, 'disabled_skip': 0, 'scope_fails': 0}
  stack = list(init_stack)
  entry = {}

  def resolve(node, src):
    if src[0] == 'fresh':
      return Tok(src[1], 'fresh')
    if src[0] == 'current':
      return stack[-1]
    if src[0] == 'anc':
      a = _anc(node, src[1])
      if a is not None:
        return entry[a['id']]
      return init_stack[-1]
    return init_stack[-1]

  def conv(node, ur, cctx):
    rel = 'caller'
    if cctx is not None:
      stack.append(cctx)
      rel = 'passed'
    if stack[-1].status == 'DISABLED':
      info['disabled_skip'] += 1
      return rel
    if node['wrap'].get('feat') in UNSUPPORTED:
      return 'scope-fails'
    if ur:
      stack.append(Tok('ENABLED', 'function-scope'))
      rel = 'fresh'
    return rel

  def call(ch):
    n0 = len(stack)
    w = ch['wrap']
    rel = 'caller'
    if w['k'] == 'dnc':
      stack.append(Tok('DISABLED', 'do_not_convert'))
      rel = 'fresh'
    elif w['k'] == 'cblock':
      stack.append(Tok(w['status'], 'block'))
      rel = 'fresh'
    elif w['k'] == 'tograph':
      if w.get('feat') in UNSUPPORTED:
        rel = 'scope-fails'
      else:
        stack.append(Tok('ENABLED', 'function-scope'))
        rel = 'fresh'
    elif w['k'] == 'conv':
      cctx = resolve(ch, w['cctx']) if w.get('cctx') is not None else None
      rel = conv(ch, w['ur'], cctx)
    elif w['k'] == 'iconv':
      t = resolve(ch, w['src'])
      if t.status == 'ENABLED' or (t.status == 'UNSPECIFIED' and w['cbd']):
        rel = conv(ch, w['ur'], t)
      elif t.status == 'DISABLED':
        stack.append(Tok('DISABLED', 'do_not_convert'))
        rel = 'fresh'
      else:
        stack.append(Tok('UNSPECIFIED', 'unspecified-wrapper'))
        rel = 'fresh'
    npush = len(stack) - n0
    info['pushes'] += npush
    info['rel'][ch['id']] = rel
    try:
      if rel == 'scope-fails':
        info['scope_fails'] += 1
        raise _Boom(-1)
      body(ch)
    except _Boom as b:
      if npush:
        b.crossed += 1
      raise
    finally:
      del stack[n0:]

  def body(n):
    k = n['id']
    entry[k] = stack[-1]
    info['entered'] += 1
    ev.append(('enter', k, None, stack[-1], None))
    for i, c in enumerate(n['ch']):
      ev.append(('pre', k, i, stack[-1], None))
      try:
        call(c)
      except _Boom as b:
        if n['form'] != 'def' or not n['catch'][i]:
          if _fin(n, i):
            ev.append(('fin', k, i, stack[-1], None))
          raise
        info['max_crossed'] = max(info['max_crossed'], b.crossed)
        info['exc_caught'] += 1
        ev.append(('caught', k, i, stack[-1], b.node))
      if _fin(n, i):
        ev.append(('fin', k, i, stack[-1], None))
      ev.append(('post', k, i, stack[-1], None))
    ev.append(('leave', k, None, stack[-1], None))
    if n['raises']:
      raise _Boom(k)

  escaped = None
  try:
    body(root)
  except _Boom as b:
    escaped = b.node
    info['max_crossed'] = max(info['max_crossed'], b.crossed)
  return ev, escaped, info


# ------------------------------------------------------------------------------------------------
# execution


def _status_name(c):
  try:
    return c.status.name
  except Exception:
    return repr(getattr(c, 'status', c))


def _boom_of(e):
  """Node id of a generated exception, -1 for the unsupported-feature assertion, None for anything else."""
  m = _BOOM.findall(str(e))
  if m:
    return int(m[-1])
  if isinstance(e, AssertionError) and 'are not supported' in str(e):
    return -1
  return None


def _run_runner(mod, spec, out, barrier):
  """Runs in the runner's own thread. Records raw observations into `out`."""
  try:
    stack = ag_ctx._control_ctx()
    out['init_len'] = len(stack)
    out['init_saved'] = list(stack)
    out['init_top'] = malt.control_status_ctx()
  except Exception as e:  # broken accessor: property failure, reported by the oracle
    out['init_error'] = e
    stack = None
  if barrier is not None:
    barrier.wait(timeout=120)
  if 'init_error' in out:
    return
  cm = None
  try:
    if spec.get('outer'):
      cm = ag_ctx.ControlStatusCtx(ag_ctx.Status[spec['outer']])
      cm.__enter__()
      out['outer_obj'] = cm
    for _ in range(spec.get('rounds', 1)):
      r = {}
      out['rounds'].append(r)
      log, env = [], {}
      r['log'] = log
      try:
        r['before'] = malt.control_status_ctx()
        r['len_before'] = len(ag_ctx._control_ctx())
        env['top'] = r['before']
        if mod is not None:
          mod.f0(log, env)
      except BaseException as e:  # pylint:disable=broad-except
        r['escaped'] = e
      try:
        r['after'] = malt.control_status_ctx()
        r['len_after'] = len(ag_ctx._control_ctx())
      except Exception as e:
        r['after_error'] = e
  except BaseException as e:  # pylint:disable=broad-except
    out['runner_error'] = e
  finally:
    if cm is not None:
      try:
        cm.__exit__(None, None, None)
      except BaseException as e:  # pylint:disable=broad-except
        out['outer_exit_error'] = e
    try:
      out['final_top'] = malt.control_status_ctx()
      out['final_len'] = len(ag_ctx._control_ctx())
    except Exception as e:
      out['final_error'] = e
    # leave the thread (matters for the calling thread, which lives on) as it was found
    try:
      cur = ag_ctx._control_ctx()
      sv = out['init_saved']
      if len(cur) != len(sv) or any(a is not b for a, b in zip(cur, sv)):
        cur[:] = sv
        out['repaired'] = True
    except Exception:
      try:
        ag_ctx.stacks.control_status = list(out['init_saved'])
      except Exception:
        pass


def _wrapkind(n):
  w = n['wrap']
  if w['k'] == 'conv':
    return 'convert(ur=%s%s)' % (w['ur'], ',ctx' if w.get('cctx') is not None else '')
  if w['k'] == 'iconv':
    return 'internal.convert(ur=%s)' % w['ur']
  return {'dnc': 'do_not_convert', 'tograph': 'to_graph', 'cblock': 'ctx-block', 'plain': 'plain'}[w['k']]


def check_run(root, byid, outer, r, fails, where):
  """Oracle for one tree run. r = raw round record. Appends (bucket, detail)."""
  log = r['log']

  def desc(c):
    return '%s#%d' % (_status_name(c), objs.setdefault(id(c), len(objs)))
  objs = {}

  def add(bucket, detail):
    d = dict(detail)
    d['where'] = where
    fails.append((bucket, d))

  if 'after_error' in r:
    add('stack:unreadable:' + harness.exc_bucket(r['after_error']), {'exc': repr(r['after_error'])})
    return None
  # ---- top of stack / length restored around the whole tree
  if r['after'] is not r['before']:
    add('identity:tree-top', {'before': desc(r['before']), 'after': desc(r['after'])})
  if r['len_after'] != r['len_before']:
    add('stack:length', {'before': r['len_before'], 'after': r['len_after']})

  # ---- identity, model free: all observations of one node activation are one object
  first = {}
  for e in log:
    ev, k, i, c = e[0], e[1], e[2], e[3]
    if k not in first:
      first[k] = c
    elif c is not first[k]:
      n = byid.get(k)
      kind = {'post': 'after-return', 'caught': 'after-caught-raise', 'pre': 'before-call', 'leave': 'at-leave',
              'enter': 're-enter', 'fin': 'in-finally'}[ev]
      if ev == 'post' and any(x[0] == 'caught' and x[1] == k and x[2] == i for x in log):
        kind = 'after-caught-raise'
      callee = n['ch'][i] if (n is not None and i is not None and i < len(n['ch'])) else None
      add('identity:' + kind, {'node': k, 'child_index': i, 'callee': _wrapkind(callee) if callee else None,
                               'callee_form': callee['form'] if callee else None,
                               'on_entry': desc(first[k]), 'now': desc(c)})
      break

  # ---- model
  init = [Tok(_status_name(r['before']), 'initial')]
  exp, exp_escaped, info = simulate(root, init)
  # unexpected exceptions first: they explain a diverging trace best
  for e in log:
    if e[0] == 'caught' and _boom_of(e[4]) is None:
      add('trace:unexpected-exception:' + harness.exc_bucket(e[4]), {'node': e[1], 'exc': repr(e[4])[:400]})
      break
  esc = r.get('escaped')
  if esc is not None and (not isinstance(esc, Exception) or _boom_of(esc) is None):
    add('trace:escaped-exception:' + harness.exc_bucket(esc), {'exc': repr(esc)[:400]})
  elif (esc is None) != (exp_escaped is None) or (esc is not None and _boom_of(esc) != exp_escaped):
    add('trace:escape', {'expected': exp_escaped, 'got': repr(esc)[:300]})
  canon_e, canon_a = {}, {}
  for j in range(max(len(exp), len(log))):
    if j >= len(exp) or j >= len(log):
      add('trace:length', {'expected': len(exp), 'got': len(log),
                           'next_expected': repr(exp[j][:3]) if j < len(exp) else None,
                           'next_got': repr(log[j][:3]) if j < len(log) else None})
      break
    x, a = exp[j], log[j]
    if (x[0], x[1], x[2]) != (a[0], a[1], a[2]):
      add('trace:event:expected-%s-got-%s' % (x[0], a[0]), {'expected': repr(x[:3]), 'got': repr(a[:3]), 'index': j})
      break
    n = byid[x[1]]
    got_status = _status_name(a[3])
    if x[3].status != got_status:
      if x[0] == 'enter':
        add('status:%s:expected-%s-got-%s' % (_wrapkind(n), x[3].status, got_status),
            {'node': x[1], 'form': n['form'], 'wrap': n['wrap'], 'caller_status': _status_name(first.get(
                n['parent']['id'])) if n['parent'] is not None and n['parent']['id'] in first else None})
      else:
        add('status:at-%s:expected-%s-got-%s' % (x[0], x[3].status, got_status), {'node': x[1], 'index': j})
      break
    ce = canon_e.setdefault(id(x[3]), len(canon_e))
    ca = canon_a.setdefault(id(a[3]), len(canon_a))
    if ce != ca:
      rel = info['rel'].get(x[1], 'initial') if x[0] == 'enter' else 'same-as-entry'
      add('ctx-object:%s:expected-%s' % (_wrapkind(n) if x[0] == 'enter' else 'at-' + x[0], rel),
          {'node': x[1], 'form': n['form'], 'wrap': n['wrap'], 'index': j, 'expected_canon': ce, 'got_canon': ca,
           'got': desc(a[3])})
      break
    if x[0] == 'caught' and _boom_of(a[4]) != x[4]:
      add('trace:caught-wrong-exception', {'node': x[1], 'expected_from': x[4], 'got': repr(a[4])[:300]})
      break
  return info


def _retire(mod):
  """Removes the module's file / sys.modules / linecache entries but keeps the module object (and so
  its code objects, which key malt's weak cache) alive for the life of the process."""
  import linecache
  import os
  import sys
  sys.modules.pop(mod.__name__, None)
  p = getattr(mod, '__file__', None)
  if p:
    linecache.cache.pop(p, None)
    try:
      os.unlink(p)
    except OSError:
      pass
  _KEEP.append(mod)


def run_case(case):
  """Executes a case. Returns (fails, info)."""
  mods = []
  try:
    return _run_case(case, mods)
  finally:
    for m in mods:
      _retire(m)


# ---- how the runners are started
#
# case['spawn'] (absent = the plain shape: the calling thread starts one threading.Thread per runner):
#   how     'threads'    one threading.Thread per runner
#           'pool'       concurrent.futures.ThreadPoolExecutor, one submit per runner
#           'to_thread'  asyncio.run(gather(asyncio.to_thread(runner)...)) (each runs under a copy of the task's context)
#   via     'main' | 'thread'   the spawning thread is the calling thread / a fresh plain thread
#   touch   the spawning thread has looked at its conversion status before it starts the workers
#   inside  None | status name | 'dnc'  the spawning thread is inside a ControlStatusCtx block / a do_not_convert call
#           from before the workers start until after they are joined
#   workers (pool, to_thread) pool size; smaller than the number of runners = pool threads are reused by later runners
#           (then there is no start barrier)
#   init    (pool) the pool has an initializer that replays the submitter's context variables into each pool thread
# runner spec 'ctx': None | 'copy' | 'copy2'  the runner is started through contextvars.copy_context().run (copy2: a copy
#           taken inside a copy); for the spawning thread's own runner: its tree runs under a copied context in that thread
# Whatever the way a thread was started and whatever contextvars context it runs under, it is a thread: the oracle is
# the same for all of them.
SPAWN_DEFAULT = {'how': 'threads', 'via': 'main', 'touch': True, 'inside': None, 'workers': None, 'init': False}


def _spawn_cfg(case):
  cfg = dict(SPAWN_DEFAULT)
  cfg.update(case.get('spawn') or {})
  return cfg


def _snap(res, tag):
  try:
    res[tag + '_top'] = malt.control_status_ctx()
    res[tag + '_stack'] = list(ag_ctx._control_ctx())
    return True
  except Exception as e:  # broken accessor: property failure, reported by the oracle
    res.setdefault('unreadable', e)
    return False


def _replay_context(ctx):
  """Pool initializer: the usual recipe that hands the submitter's context variables to pool threads."""
  for var, val in ctx.items():
    var.set(val)


def _worker(mod, spec, out, barrier, started):
  out['thread'] = threading.current_thread()
  started.append(1)
  _run_runner(mod, spec, out, barrier)


def _restore_stack(saved):
  try:
    cur = ag_ctx._control_ctx()
    if len(cur) != len(saved) or any(a is not b for a, b in zip(cur, saved)):
      cur[:] = saved
  except Exception:
    try:
      ag_ctx.stacks.control_status = list(saved)
    except Exception:
      pass


def _spawner(cfg, mods, specs, outs, res):
  """Runs in the spawning thread: starts the workers, runs its own runner (if any), joins. Raw observations go to
  `res`; never raises for a property failure (res['harness'] = traceback of a harness error)."""
  import asyncio
  import concurrent.futures
  import contextvars
  import functools
  import traceback
  res['thread'] = threading.current_thread()
  wspecs = [(i, name, sp) for i, (name, sp) in enumerate(specs) if name != 'main']
  own = [(i, sp) for i, (name, sp) in enumerate(specs) if name == 'main']
  nth = len(wspecs)
  how = cfg['how'] if nth else 'threads'
  reuse = bool(how != 'threads' and cfg.get('workers') and cfg['workers'] < nth)
  res['reuse'] = reuse
  barrier = threading.Barrier(len(specs)) if nth and len(specs) > 1 and not reuse else None
  early = bool(cfg['touch'] or cfg['inside'] is not None)
  started = []
  polled = res.setdefault('polled', [])

  def poll():
    # the spawning thread keeps looking at its own status while the others run (the number of looks
    # depends on the schedule, the verdict does not)
    if polled or 'before_top' not in res:
      return
    try:
      c = malt.control_status_ctx()
      if c is not res['before_top']:
        polled.append(_status_name(c))
    except Exception as e:
      polled.append(repr(e))

  def target_of(i, sp):
    mod = mods[sp['tree']] if sp.get('tree') is not None else None
    fn = functools.partial(_worker, mod, sp, outs[i], barrier, started)
    c = sp.get('ctx')
    if how == 'to_thread' or not c:
      return fn
    ctx = contextvars.copy_context() if c == 'copy' else contextvars.copy_context().run(contextvars.copy_context)
    return functools.partial(ctx.run, fn)

  def run_own():
    for i, sp in own:
      mod = mods[sp['tree']] if sp.get('tree') is not None else None
      outs[i]['thread'] = threading.current_thread()
      if sp.get('ctx'):
        contextvars.copy_context().run(_run_runner, mod, sp, outs[i], barrier)
      else:
        _run_runner(mod, sp, outs[i], barrier)

  def late_snap():
    if not early:
      _snap(res, 'before')

  def go_threads():
    ths = []
    for i, name, sp in wspecs:
      th = threading.Thread(target=target_of(i, sp), name='c16-' + name)
      th.daemon = True
      ths.append(th)
    for th in ths:
      th.start()
    late_snap()
    run_own()
    for th in ths:
      for _ in range(60000):
        th.join(0.005)
        poll()
        if not th.is_alive():
          break
      if th.is_alive():
        raise RuntimeError('runner thread did not finish (harness)')

  def go_pool():
    kw = {}
    if cfg.get('init'):
      kw = {'initializer': _replay_context, 'initargs': (contextvars.copy_context(),)}
    ex = concurrent.futures.ThreadPoolExecutor(max_workers=cfg['workers'] if reuse else nth, thread_name_prefix='c16-pool',
                                               **kw)
    ok = False
    try:
      futs = [ex.submit(target_of(i, sp)) for i, name, sp in wspecs]
      late_snap()
      run_own()
      for f in futs:
        for _ in range(60000):
          done, _nd = concurrent.futures.wait([f], timeout=0.005)
          poll()
          if done:
            break
        else:
          raise RuntimeError('pooled runner did not finish (harness)')
        f.result()
      ok = True
    finally:
      ex.shutdown(wait=ok, cancel_futures=not ok)

  async def go_async():
    loop = asyncio.get_running_loop()
    loop.set_default_executor(concurrent.futures.ThreadPoolExecutor(max_workers=cfg['workers'] if reuse else nth,
                                                                    thread_name_prefix='c16-aio'))
    tasks = [asyncio.ensure_future(asyncio.to_thread(target_of(i, sp))) for i, name, sp in wspecs]
    await asyncio.sleep(0)
    if not reuse:
      for _ in range(120000):
        if len(started) >= nth or all(t.done() for t in tasks):
          break
        await asyncio.sleep(0.001)
      else:
        raise RuntimeError('asyncio.to_thread runners did not start (harness)')
    late_snap()
    run_own()   # blocks the loop: nothing else is scheduled on it, the workers do not need it
    pending = set(tasks)
    for _ in range(60000):
      if not pending:
        break
      _d, pending = await asyncio.wait(pending, timeout=0.005)
      poll()
    else:
      raise RuntimeError('asyncio.to_thread runner did not finish (harness)')
    for t in tasks:
      t.result()

  def go():
    try:
      if early and not _snap(res, 'before'):
        return
      if how == 'threads':
        go_threads()
      elif how == 'pool':
        go_pool()
      else:
        asyncio.run(go_async())
      _snap(res, 'after')
    except BaseException:  # pylint:disable=broad-except
      res['harness'] = traceback.format_exc()

  if early and not _snap(res, 'base'):
    return
  ins = cfg['inside']
  if ins is None:
    go()
  elif ins == 'dnc':
    try:
      malt.experimental.do_not_convert(go)()
    except BaseException as e:  # pylint:disable=broad-except
      res['inside_error'] = e
  else:
    cm = ag_ctx.ControlStatusCtx(ag_ctx.Status[ins])
    try:
      cm.__enter__()
      res['inside_obj'] = cm
    except BaseException as e:  # pylint:disable=broad-except
      res['inside_error'] = e
      return
    go()
    try:
      cm.__exit__(None, None, None)
    except BaseException as e:  # pylint:disable=broad-except
      res['inside_error'] = e
  if not early and 'before_top' in res:
    res['base_top'], res['base_stack'] = res['before_top'], res['before_stack']
  _snap(res, 'end')
  if 'base_stack' in res:
    _restore_stack(res['base_stack'])


def _run_case(case, mods):
  fails = []
  info = {'runs': 0, 'max_crossed': 0, 'pushes': 0, 'exc_caught': 0, 'entered': 0, 'disabled_skip': 0, 'scope_fails': 0,
          'rels': set(), 'pool_threads_reused': 0}
  roots = []
  for t in case['trees']:
    root = number(t)
    roots.append((root, {n['id']: n for n in nodes_of(root)}))
    try:
      mods.append(harness.load_module(render(t)))
    except Exception as e:
      # import runs to_graph eagerly: a conversion failure there is a property-relevant event only
      # if malt raised; a SyntaxError is a generator slip (harness error)
      if isinstance(e, SyntaxError):
        raise
      fails.append(('load:' + harness.exc_bucket(e), {'exc': repr(e)[:400]}))
      return fails, info

  cfg = _spawn_cfg(case)
  specs = []
  if case.get('main') is not None:
    specs.append(('main', case['main']))
  for i, t in enumerate(case.get('threads', [])):
    specs.append(('thread%d' % i, t))
  outs = [{'rounds': []} for _ in specs]
  nthreads = len(case.get('threads', []))
  via_thread = bool(nthreads and cfg['via'] == 'thread')

  res = {}
  call_thread = threading.current_thread()
  call_before = malt.control_status_ctx()
  call_stack_before = list(ag_ctx._control_ctx())
  call_polled = None
  if via_thread:
    th = threading.Thread(target=_spawner, args=(cfg, mods, specs, outs, res), name='c16-spawner')
    th.daemon = True
    th.start()
    for _ in range(200000):
      th.join(0.005)
      try:
        if call_polled is None and malt.control_status_ctx() is not call_before:
          call_polled = _status_name(malt.control_status_ctx())
      except Exception as e:
        call_polled = repr(e)
      if not th.is_alive():
        break
    if th.is_alive():
      raise RuntimeError('spawning thread did not finish (harness)')
  else:
    _spawner(cfg, mods, specs, outs, res)
  if 'harness' in res:
    _restore_stack(call_stack_before)
    raise RuntimeError('spawner failed (harness):\n' + res['harness'])

  # ---- the spawning thread
  if 'unreadable' in res:
    fails.append(('stack:unreadable:' + harness.exc_bucket(res['unreadable']), {'exc': repr(res['unreadable'])}))
  if res.get('polled'):
    fails.append(('thread:calling-thread-status-changed-while-threads-run', {'saw': res['polled'][0]}))
  if 'inside_error' in res:
    e = res['inside_error']
    fails.append(('spawn-block-exit:' + harness.exc_bucket(e), {'inside': cfg['inside'], 'exc': repr(e)[:400]}))
  if 'before_top' in res and 'after_top' in res:
    sb, sa = res['before_stack'], res['after_stack']
    if res['after_top'] is not res['before_top'] or len(sa) != len(sb) or any(a is not b for a, b in zip(sa, sb)):
      fails.append(('thread:calling-thread-status-changed' if nthreads else 'stack:calling-thread-not-restored',
                    {'before': [_status_name(c) for c in sb], 'after': [_status_name(c) for c in sa]}))
  if cfg['inside'] is not None and 'before_top' in res:
    want = 'DISABLED' if cfg['inside'] == 'dnc' else cfg['inside']
    if _status_name(res['before_top']) != want:
      fails.append(('status:spawner-inside-%s:got-%s' % (cfg['inside'], _status_name(res['before_top'])), {}))
    if len(res['before_stack']) != len(res['base_stack']) + 1:
      fails.append(('stack:length-inside-spawner-block', {'base': len(res['base_stack']), 'inside': len(res['before_stack'])}))
  if 'base_top' in res and 'end_top' in res:
    sb, sa = res['base_stack'], res['end_stack']
    if res['end_top'] is not res['base_top'] or len(sa) != len(sb) or any(a is not b for a, b in zip(sa, sb)):
      fails.append(('thread:calling-thread-status-changed' if nthreads else 'stack:calling-thread-not-restored',
                    {'before': [_status_name(c) for c in sb], 'after': [_status_name(c) for c in sa], 'at': 'end'}))
  if via_thread:
    if call_polled is not None:
      fails.append(('thread:calling-thread-status-changed-while-threads-run', {'saw': call_polled, 'thread': 'caller'}))
    if 'base_top' in res:
      if _status_name(res['base_top']) != 'UNSPECIFIED' or len(res['base_stack']) != 1:
        fails.append(('thread:initial-not-default', {'where': 'spawner', 'status': _status_name(res['base_top']),
                                                     'stack_len': len(res['base_stack'])}))
      if any(res['base_top'] is c for c in call_stack_before):
        fails.append(('thread:initial-is-calling-threads-ctx', {'where': 'spawner'}))
  try:
    call_after = malt.control_status_ctx()
    call_stack_after = list(ag_ctx._control_ctx())
    if call_after is not call_before or len(call_stack_after) != len(call_stack_before) or any(
        a is not b for a, b in zip(call_stack_after, call_stack_before)):
      fails.append(('thread:calling-thread-status-changed' if nthreads else 'stack:calling-thread-not-restored',
                    {'before': [_status_name(c) for c in call_stack_before],
                     'after': [_status_name(c) for c in call_stack_after], 'at': 'caller'}))
      ag_ctx._control_ctx()[:] = call_stack_before
  except Exception as e:
    fails.append(('stack:unreadable:' + harness.exc_bucket(e), {'exc': repr(e)}))
    try:
      ag_ctx.stacks.control_status = list(call_stack_before)
    except Exception:
      pass

  # ---- the runners; objects are attributed to the OS thread that saw them
  spawner_objs = list(call_stack_before)
  for k in ('base_stack', 'before_stack', 'after_stack', 'end_stack'):
    spawner_objs.extend(res.get(k, []))
  by_thread = {}   # id(thread object) -> [label, {id(obj)}, first init_top]
  by_thread[id(call_thread)] = ['caller', {id(c) for c in call_stack_before}, None]
  if 'thread' in res:
    ent = by_thread.setdefault(id(res['thread']), ['spawner', set(), None])
    for k in ('base_stack', 'before_stack', 'after_stack', 'end_stack'):
      ent[1].update(id(c) for c in res.get(k, []))
  run_fails = []  # per-run oracle clauses are listed before the whole-runner ones
  for (name, sp), out in zip(specs, outs):
    if 'thread' not in out:
      continue   # never started (the spawner could not read its status)
    ent = by_thread.setdefault(id(out['thread']), [name, set(), None])
    mine = ent[1]
    if 'init_error' in out:
      fails.append(('stack:unreadable:' + harness.exc_bucket(out['init_error']), {'where': name}))
      continue
    if 'runner_error' in out:
      e = out['runner_error']
      fails.append(('runner:' + harness.exc_bucket(e), {'where': name, 'exc': repr(e)[:400]}))
    if 'outer_exit_error' in out:
      e = out['outer_exit_error']
      fails.append(('outer-block-exit:' + harness.exc_bucket(e), {'where': name, 'exc': repr(e)[:400]}))
    if 'final_error' in out:
      fails.append(('stack:unreadable:' + harness.exc_bucket(out['final_error']), {'where': name}))
    else:
      if out.get('final_top') is not out['init_top']:
        fails.append(('stack:top-after-runner', {'where': name, 'init': _status_name(out['init_top']),
                                                 'final': _status_name(out.get('final_top'))}))
      if out.get('final_len') != out['init_len']:
        fails.append(('stack:length-after-runner', {'where': name, 'init': out['init_len'], 'final': out.get('final_len')}))
    if name != 'main':
      if _status_name(out['init_top']) != 'UNSPECIFIED' or out['init_len'] != 1:
        fails.append(('thread:initial-not-default', {'where': name, 'status': _status_name(out['init_top']),
                                                     'stack_len': out['init_len']}))
      if any(out['init_top'] is c for c in spawner_objs):
        fails.append(('thread:initial-is-calling-threads-ctx', {'where': name}))
      if ent[2] is None:
        ent[2] = out['init_top']
      else:
        info['pool_threads_reused'] += 1
        if ent[2] is not out['init_top']:
          # nothing else ran on this pool thread in between: the status after the earlier task is the one before this one
          fails.append(('stack:pool-thread-status-changed-between-tasks', {'where': name}))
    mine.add(id(out['init_top']))
    if sp.get('tree') is None:
      continue
    root, byid = roots[sp['tree']]
    for ri, r in enumerate(out['rounds']):
      if 'before' not in r:
        continue
      inf = check_run(root, byid, sp.get('outer'), r, run_fails, '%s/round%d' % (name, ri))
      info['runs'] += 1
      for e in r['log']:
        mine.add(id(e[3]))
      mine.add(id(r['before']))
      if 'after' in r:
        mine.add(id(r['after']))
      if inf is not None:
        info['max_crossed'] = max(info['max_crossed'], inf['max_crossed'])
        for f in ('pushes', 'exc_caught', 'entered', 'disabled_skip', 'scope_fails'):
          info[f] += inf[f]
        info['rels'].update(inf['rel'].values())
  ents = list(by_thread.values())
  shared = None
  for i in range(len(ents)):
    for j in range(i + 1, len(ents)):
      common_ids = ents[i][1] & ents[j][1]
      if common_ids:
        shared = {'runners': [ents[i][0], ents[j][0]], 'n_shared': len(common_ids)}
        break
    if shared:
      break
  if shared:
    fails.append(('thread:ctx-object-shared-between-threads', shared))
  # outs / res hold the ctx and thread objects alive until here, so id() is unambiguous
  out_fails, seenb = [], set()
  for b, d in run_fails + fails:
    if b not in seenb:
      seenb.add(b)
      out_fails.append((b, d))
  return out_fails, info


# ------------------------------------------------------------------------------------------------
# generator

_bool = st.booleans()
_ctls = st.sampled_from([None, None, None, 'if', 'for', 'while'])
_feat = st.sampled_from([None, None, None, None, None, 'BUILTIN_FUNCTIONS', 'EQUALITY_OPERATORS', 'NAME_SCOPES',
                         'AUTO_CONTROL_DEPS'])


def _src_strategy():
  return st.one_of(
      st.tuples(st.just('fresh'), st.sampled_from(STATUSES)).map(list),
      st.tuples(st.just('fresh'), st.sampled_from(STATUSES)).map(list),
      st.just(['current']),
      st.tuples(st.just('anc'), st.integers(1, 3)).map(list),
      st.tuples(st.just('anc'), st.integers(1, 3)).map(list),
      st.just(['top']),
  )


@st.composite
def _wrap(draw):
  k = draw(st.sampled_from(['plain', 'conv', 'conv', 'conv', 'dnc', 'dnc', 'iconv', 'iconv', 'cblock', 'tograph']))
  if k == 'conv':
    return {'k': 'conv', 'rec': draw(_bool), 'ur': draw(_bool),
            'cctx': draw(_src_strategy()) if draw(st.sampled_from([False, False, True])) else None, 'feat': draw(_feat)}
  if k == 'iconv':
    return {'k': 'iconv', 'src': draw(_src_strategy()), 'cbd': draw(_bool), 'ur': draw(_bool)}
  if k == 'cblock':
    return {'k': 'cblock', 'status': draw(st.sampled_from(STATUSES)), 'inline': draw(_bool)}
  if k == 'tograph':
    return {'k': 'tograph', 'rec': draw(_bool), 'feat': draw(_feat)}
  return {'k': k}


@st.composite
def trees(draw, max_depth, max_nodes, max_fan):
  left = [draw(st.integers(1, max_nodes))]

  def node(depth):
    left[0] -= 1
    form = draw(st.sampled_from(['def', 'def', 'lam']))
    wrap = draw(_wrap())
    ch = []
    if depth < max_depth and left[0] > 0:
      # chains are what stacks contexts: prefer >= 1 child while budget lasts
      nch = draw(st.integers(0, min(max_fan, left[0])))
      if nch == 0 and depth < 2 and draw(_bool):
        nch = 1
      for _ in range(nch):
        if left[0] <= 0:
          break
        ch.append(node(depth + 1))
    raises = draw(st.sampled_from([True, False] if not ch else [True, False, False, False]))
    catch = [form == 'def' and draw(_bool) for _ in ch]
    fin = [form == 'def' and draw(st.sampled_from([False, False, True])) for _ in ch]
    ctl = [draw(_ctls) if form == 'def' else draw(st.sampled_from([None, None, 'if'])) for _ in ch]
    rctl = draw(_ctls) if (form == 'def' and raises) else None
    return {'form': form, 'wrap': wrap, 'ch': ch, 'catch': catch, 'fin': fin, 'ctl': ctl, 'raises': raises, 'rctl': rctl}

  top = []
  nroot = draw(st.integers(1, 2))
  for _ in range(nroot):
    if left[0] <= 0 and top:
      break
    top.append(node(1))
  return {'form': 'def', 'wrap': {'k': 'plain'}, 'ch': top, 'catch': [True] * len(top), 'fin': [False] * len(top),
          'ctl': [None] * len(top), 'raises': False, 'rctl': None}


@st.composite
def _spawn(draw, nth):
  """How the runner threads come to life (None = one plain threading.Thread each, started by the calling thread)."""
  if draw(st.sampled_from([True, False, False])):
    return None
  how = draw(st.sampled_from(['threads', 'threads', 'pool', 'to_thread']))
  via = draw(st.sampled_from(['main', 'main', 'thread']))
  sp = {'how': how, 'via': via,
        'touch': True if via == 'main' else draw(st.sampled_from([True, True, False])),
        'inside': draw(st.sampled_from([None, None, None, 'ENABLED', 'DISABLED', 'UNSPECIFIED', 'dnc']))}
  if how != 'threads':
    sp['workers'] = draw(st.integers(1, nth - 1)) if nth > 1 and draw(st.sampled_from([False, False, True])) else None
  if how == 'pool':
    sp['init'] = draw(_bool)
  return sp


_wctx = st.sampled_from([None, 'copy', 'copy', 'copy2'])


@st.composite
def cases(draw, b):
  mode = draw(st.sampled_from(['main', 'main', 'main', 'thread1', 'threads', 'threads']))
  outer = st.sampled_from([None, None, 'ENABLED', 'DISABLED', 'UNSPECIFIED'])
  rounds = st.sampled_from([1, 1, 2])
  tr = trees(b['max_depth'], b['max_nodes'], b['max_fan'])

  def with_ctx(spec, sp, own=False):
    # to_thread copies the context by itself; the spawner's own tree may run under a copied context in any shape
    if own:
      if draw(st.sampled_from([False, False, False, True])):
        spec['ctx'] = 'copy'
    elif sp is not None and sp['how'] != 'to_thread':
      c = draw(_wctx)
      if c:
        spec['ctx'] = c
    return spec

  if mode == 'main':
    return {'trees': [draw(tr)], 'main': with_ctx({'tree': 0, 'outer': draw(outer), 'rounds': draw(rounds)}, None, True),
            'threads': []}
  if mode == 'thread1':
    case = {'trees': [draw(tr)], 'main': {'tree': None, 'outer': draw(outer), 'rounds': 1},
            'threads': [{'tree': 0, 'outer': draw(outer), 'rounds': draw(rounds)}]}
    nth = 1
  else:
    ntrees = draw(st.integers(1, 3))
    small = trees(max(2, b['max_depth'] - 1), max(3, b['max_nodes'] // 2), b['max_fan'])
    pool = [draw(small) for _ in range(ntrees)]
    nth = draw(st.integers(2, b['max_threads']))
    main_tree = draw(st.sampled_from([None] + list(range(ntrees))))
    case = {'trees': pool, 'main': {'tree': main_tree, 'outer': draw(outer), 'rounds': 1},
            'threads': [{'tree': draw(st.integers(0, ntrees - 1)), 'outer': draw(outer), 'rounds': draw(rounds)}
                        for _ in range(nth)]}
  sp = draw(_spawn(nth))
  if sp is not None:
    case['spawn'] = sp
    for t in case['threads']:
      with_ctx(t, sp)
    if case['main'].get('tree') is not None:
      with_ctx(case['main'], sp, True)
  return case


# ------------------------------------------------------------------------------------------------
# runner API


def _classes(case, info):
  cl = []
  nth = len(case['threads'])
  cl.append('threads=%s' % ('0' if nth == 0 else '1' if nth == 1 else '2-4' if nth <= 4 else '5-8' if nth <= 8 else '9-16'))
  if case['main'] and case['main'].get('outer'):
    cl.append('calling_thread_inside_outer_block')
  if any(t.get('outer') for t in case['threads']):
    cl.append('thread_inside_outer_block')
  if any(s.get('rounds', 1) > 1 for s in [case['main']] + case['threads'] if s):
    cl.append('tree_run_twice')
  if nth:
    cfg = _spawn_cfg(case)
    how = cfg['how']
    cl.append('spawn:how=' + {'threads': 'threading.Thread', 'pool': 'ThreadPoolExecutor', 'to_thread': 'asyncio.to_thread'}[how])
    cl.append('spawn:by=' + ('calling_thread' if cfg['via'] == 'main' else 'intermediate_thread'))
    if not (cfg['touch'] or cfg['inside'] is not None):
      cl.append('spawn:spawner_has_not_touched_status_yet')
    if cfg['inside'] is not None:
      cl.append('spawn:spawner_inside=' + ('do_not_convert' if cfg['inside'] == 'dnc' else 'block:' + cfg['inside']))
    reuse = bool(how != 'threads' and cfg.get('workers') and cfg['workers'] < nth)
    if reuse:
      cl.append('spawn:pool_smaller_than_runners(threads_reused,no_barrier)')
    if how == 'pool' and cfg.get('init'):
      cl.append('spawn:pool_initializer_replays_context_vars')
    ctxs = {'copy' if how == 'to_thread' else (t.get('ctx') or 'empty') for t in case['threads']}
    for c in sorted(ctxs):
      cl.append('worker_context:' + {'empty': 'fresh(empty)', 'copy': 'copy_of_spawners', 'copy2': 'copy_of_copy'}[c])
    inherits = ctxs - {'empty'} or (how == 'pool' and cfg.get('init'))
    if inherits:
      cl.append('worker_started_with_spawners_context_vars')
      if cfg['touch'] or cfg['inside'] is not None:
        cl.append('worker_started_with_spawners_context_vars_after_spawner_touched_status')
        if not reuse and nth > 1:
          cl.append('worker_started_with_spawners_context_vars_after_spawner_touched_status:overlapping(barrier)')
  if case['main'] and case['main'].get('ctx') and case['main'].get('tree') is not None:
    cl.append('spawner_own_tree_under_copied_context')
  if info.get('pool_threads_reused'):
    cl.append('pool_thread_ran_more_than_one_runner')
  kinds, forms, srcs, feats = set(), set(), set(), set()
  depth = [0]
  nn = 0
  for t in case['trees']:
    root = number(t)
    for n in nodes_of(root):
      if n['id'] == 0:
        continue
      nn += 1
      kinds.add(_wrapkind(n))
      forms.add(n['form'])
      w = n['wrap']
      s = w.get('cctx') if w['k'] == 'conv' else w.get('src') if w['k'] == 'iconv' else None
      if s is not None:
        srcs.add(s[0] + (':' + s[1] if s[0] == 'fresh' else ''))
      if w['k'] == 'cblock':
        kinds.add('ctx-block:' + ('inline' if _inline_block(n) else 'helper'))
      if any(_fin(n, i) for i in range(len(n['ch']))):
        feats.add('call_in_try_finally')
      for i in range(len(n['ch'])):
        if _ctl(n, i):
          feats.add('call_inside_' + _ctl(n, i))
      if n['raises'] and n['form'] == 'def' and n.get('rctl'):
        feats.add('raise_inside_' + n['rctl'])
      if n['form'] == 'lam' and w['k'] in ('conv', 'iconv', 'tograph') and w.get('ur', True):
        feats.add('user_requested_lambda' + ('_raising' if n['raises'] else ''))
      d, a = 0, n
      while a['parent'] is not None:
        d, a = d + 1, a['parent']
      depth[0] = max(depth[0], d)
  cl += ['wrap:' + k for k in sorted(kinds)] + ['form:' + f for f in sorted(forms)] + ['ctxsrc:' + s for s in sorted(srcs)]
  cl += sorted(feats)
  cl.append('depth=%d' % depth[0])
  cl.append('nodes=%s' % ('1-3' if nn <= 3 else '4-8' if nn <= 8 else '9-16' if nn <= 16 else '17+'))
  cl.append('exception_crossed_pushing_calls=%s' % (info['max_crossed'] if info['max_crossed'] < 4 else '4+'))
  if info['exc_caught']:
    cl.append('exception_caught_by_generated_ancestor')
  if info['disabled_skip']:
    cl.append('convert_called_while_disabled')
  if info['scope_fails']:
    cl.append('function_scope_construction_raises(unsupported_feature)')
  for r in sorted(info['rels']):
    cl.append('entry_ctx:' + r)
  return cl, nn


class _Spy(object):
  """Counts (never alters) conversions that fell back and function scopes entered: tells how much of
  the generated code really ran converted. Installed for the duration of a shard only."""

  def __init__(self):
    self.fallbacks = 0
    self.scopes = 0
    self.user_scopes = 0

  def __enter__(self):
    from malt.impl import api
    from malt.operators import function_wrappers
    spy = self
    self._api, self._fw = api, function_wrappers
    self._orig_fb = api._fall_back_unconverted
    self._orig_enter = function_wrappers.FunctionScope.__enter__

    def fb(*a, **k):
      spy.fallbacks += 1
      return spy._orig_fb(*a, **k)

    def enter(scope):
      spy.scopes += 1
      if getattr(scope.options, 'user_requested', False):
        spy.user_scopes += 1
      return spy._orig_enter(scope)
    api._fall_back_unconverted = fb
    function_wrappers.FunctionScope.__enter__ = enter
    return self

  def __exit__(self, *exc):
    self._api._fall_back_unconverted = self._orig_fb
    self._fw.FunctionScope.__enter__ = self._orig_enter


def shard(ctx, acc):
  b = ctx.budget
  n = ctx.share('trees')
  with _Spy() as spy:
    _shard(ctx, acc, b, n)
  acc.count('function_scopes_entered(converted_activations)', spy.scopes)
  acc.count('function_scopes_entered_user_requested', spy.user_scopes)
  acc.count('conversions_fell_back_to_unconverted', spy.fallbacks)


def _shard(ctx, acc, b, n):

  def body(case):
    fails, info = run_case(case)
    cl, nn = _classes(case, info)
    nontriv = info['max_crossed'] >= 2
    sample = None
    if nontriv and (len(acc.samples) < acc.MAX_SAMPLES or nn > (acc.biggest[0] if acc.biggest else 0)):
      sample = case
    acc.case(key=common.h8(case), nontrivial=nontriv, classes=cl, sample=sample, size=nn, n=max(1, info['runs']))
    acc.count('cases')
    acc.count('node_activations', info['entered'])
    acc.count('contexts_pushed_per_model', info['pushes'])
    for bkt, d in fails:
      acc.fail(bkt, case, d)

  common.hyp_run(ctx, cases(b), body, n)


def replay(case):
  fails, _ = run_case(case)
  return [{'bucket': b, 'detail': d} for b, d in fails]


def _variants(case):
  """Smaller cases, most aggressive first."""
  import copy
  if case.get('spawn'):
    c = copy.deepcopy(case)
    del c['spawn']
    for s in [c['main']] + c['threads']:
      if s:
        s.pop('ctx', None)
    yield c
    for fld, v in sorted(SPAWN_DEFAULT.items()):
      if case['spawn'].get(fld, v) != v and not (fld == 'how' and case['spawn']['how'] == 'to_thread'):
        c = copy.deepcopy(case)
        c['spawn'][fld] = v
        yield c
    if case['spawn']['how'] == 'to_thread':
      # asyncio.to_thread = pool thread + copied context
      c = copy.deepcopy(case)
      c['spawn']['how'] = 'threads'
      for s in c['threads']:
        s['ctx'] = 'copy'
      yield c
  for s_i, s in enumerate([case['main']] + case['threads']):
    if s and s.get('ctx'):
      c = copy.deepcopy(case)
      (c['main'] if s_i == 0 else c['threads'][s_i - 1]).pop('ctx')
      yield c
  # fewer runners
  if case['threads']:
    for t in case['threads']:
      yield dict(case, threads=[t], main=dict(case['main'], tree=None) if case['main'] else None)
      yield {'trees': case['trees'], 'main': {'tree': t['tree'], 'outer': t.get('outer'), 'rounds': t.get('rounds', 1)},
             'threads': []}
    if len(case['threads']) > 1:
      yield dict(case, threads=case['threads'][:len(case['threads']) // 2])
  used = sorted({s['tree'] for s in [case['main']] + case['threads'] if s and s.get('tree') is not None})
  if len(used) < len(case['trees']):
    c = copy.deepcopy(case)
    c['trees'] = [case['trees'][i] for i in used]
    for s in [c['main']] + c['threads']:
      if s and s.get('tree') is not None:
        s['tree'] = used.index(s['tree'])
    yield c
  for s_i, s in enumerate([case['main']] + case['threads']):
    if not s:
      continue
    for fld, v in (('rounds', 1), ('outer', None)):
      if s.get(fld) != v:
        c = copy.deepcopy(case)
        tgt = c['main'] if s_i == 0 else c['threads'][s_i - 1]
        tgt[fld] = v
        yield c
  # tree edits
  for ti, t in enumerate(case['trees']):
    paths = []

    def rec(n, p):
      paths.append(p)
      for i, c in enumerate(n['ch']):
        rec(c, p + [i])
    rec(t, [])

    def at(root, p):
      n = root
      for i in p:
        n = n['ch'][i]
      return n
    for p in paths:
      if not p:
        continue
      # delete the subtree
      c = copy.deepcopy(case)
      par = at(c['trees'][ti], p[:-1])
      del par['ch'][p[-1]]
      for fld in ('catch', 'fin', 'ctl'):
        if fld in par:
          del par[fld][p[-1]]
      yield c
      # replace the node by its children
      c = copy.deepcopy(case)
      par = at(c['trees'][ti], p[:-1])
      me = par['ch'][p[-1]]
      if me['ch']:
        par['ch'][p[-1]:p[-1] + 1] = me['ch']
        for fld in ('catch', 'fin', 'ctl'):
          if fld in par:
            par[fld][p[-1]:p[-1] + 1] = [par[fld][p[-1]]] * len(me['ch'])
        yield c
    for p in paths:
      if not p:
        continue
      n = at(t, p)
      edits = []
      if n['wrap']['k'] != 'plain':
        edits.append(('wrap', {'k': 'plain'}))
      if n['wrap']['k'] == 'conv' and n['wrap'].get('cctx') is not None:
        edits.append(('wrap', dict(n['wrap'], cctx=None)))
      if n['wrap'].get('feat'):
        edits.append(('wrap', dict(n['wrap'], feat=None)))
      if n['form'] == 'lam':
        edits.append(('form', 'def'))
      if n['raises']:
        edits.append(('raises', False))
      if any(n['catch']):
        edits.append(('catch', [False] * len(n['catch'])))
      if any(n.get('fin') or []):
        edits.append(('fin', [False] * len(n['ch'])))
      if any(n.get('ctl') or []):
        edits.append(('ctl', [None] * len(n['ch'])))
      if n.get('rctl'):
        edits.append(('rctl', None))
      for fld, v in edits:
        c = copy.deepcopy(case)
        at(c['trees'][ti], p)[fld] = v
        yield c


def shrink(case, bucket, deadline):
  import time
  cur = case
  progress = True
  while progress and time.time() < deadline:
    progress = False
    for c in _variants(cur):
      if time.time() >= deadline:
        break
      try:
        ok = any(f['bucket'] == bucket for f in replay(c))
      except Exception:
        ok = False
      if ok:
        cur, progress = c, True
        break
  return cur
