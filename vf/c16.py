"""C16 - the conversion-status context is restored on every exit and isolated per thread.

Generator: call trees (Hypothesis) rendered to a real module that only uses the public API
(`malt.convert`, `malt.experimental.do_not_convert`, `malt.internal.convert`, `malt.to_graph`,
`malt.control_status_ctx`, `ag_ctx.ControlStatusCtx` blocks).  Every node is a `def` or a `lambda`
that logs the *ctx object itself* on entry, before and after each child call, when it catches and
when it leaves; it optionally raises after its children; `def` nodes optionally catch per child.
A case is a small pool of trees plus a set of runners (the calling thread and 0..N fresh threads,
each optionally inside an outer `ControlStatusCtx` block, each running its tree 1..2 times) started
behind a barrier.

Oracle:
  identity   every observation made inside one activation of a node is the very same object
             (model free: before == after every call, returned or raised-and-caught);
  status     do_not_convert => DISABLED, user requested conversion => ENABLED, ... (model below);
  ctx-object which object is current on entry (caller's / the ctx handed to convert / a fresh one);
  trace      the event sequence (who ran, who caught which exception) is the modelled one;
  stack      top object and stack length after the tree equal those before it;
  thread     no runner observes a ctx object seen by another runner; a fresh thread starts with its
             own UNSPECIFIED default; the calling thread's status is untouched while threads run.
"""
import re
import threading

from hypothesis import strategies as st

import malt
from malt.core import ag_ctx
from vf import common
from vf import harness

ID = 'C16'
LEVEL = 'exploration'
TECHNIQUE = ('property-based testing with a trace oracle: Hypothesis-generated call trees (convert / do_not_convert / '
             'internal.convert x ctx source / to_graph / ControlStatusCtx blocks / plain; def and lambda bodies; raise at any '
             'node, catch at any def ancestor) rendered to modules and executed on 1..N threads; the logged ctx objects are '
             'compared by identity around every call and against an executable model of the documented status policy')
RULE = ('a case (pool of trees + runner set) is non-trivial when, in at least one executed tree, a generated exception '
        'propagates out of >= 2 calls that each pushed at least one status context (per the model) before it is caught; '
        'distinct by the hash of the case (trees + runner specs); evaluations = executed tree runs (runner x round)')
ASSUMPTIONS = [
    'the per-thread stack is inspected through ag_ctx._control_ctx() (private accessor) for the length clause only; every '
    'other observation uses the public malt.control_status_ctx()',
    'thread interleavings are free running (barrier start, no owned scheduling points): isolation is per-thread state, so the '
    'deterministic part of the thread clause (object disjointness, fresh default) does not depend on the schedule',
    'the expected status is the documented policy as written in DESIGN 4.16 (convert() called while DISABLED runs unconverted '
    'and stays DISABLED; to_graph output always enters ENABLED)',
    'asyncio tasks / greenlets / generators suspended inside a context are not generated',
    'each node function is activated at most once per tree run (no loops / recursion over the same node)',
]
LEVEL_TEXT = ('Randomised exploration of the call-tree x exception-placement x thread-count space with a complete trace oracle per '
              'run (every observation compared, not sampled); not exhaustive: depth <= 5, fan-out <= 3, <= 16 threads.')
LEVEL_NOTE = ('Trusted: CPython threading.local / list semantics, the rendered probe statements (log.append of '
              'malt.control_status_ctx()), the model in this file. Outside: async contexts, interpreter shutdown, contexts '
              'entered by generators, schedule-dependent races inside one thread-local stack (there is none by construction).')

_KEEP = []           # modules stay loaded (see c01: code-object keyed weak cache)
STATUSES = ('ENABLED', 'DISABLED', 'UNSPECIFIED')
_BOOM = re.compile(r'BOOM<(\d+)>')


def budget(tier):
  if tier == 'thorough':
    return {'trees': 16000, 'max_depth': 5, 'max_nodes': 20, 'max_fan': 3, 'max_threads': 16, 'wall_cap': 1100,
            'shrink_s': 60}
  return {'trees': 1200, 'max_depth': 5, 'max_nodes': 10, 'max_fan': 3, 'max_threads': 16, 'wall_cap': 300, 'shrink_s': 15}


# ------------------------------------------------------------------------------------------------
# tree representation
#
# node  = {'form': 'def'|'lam', 'wrap': {...}, 'ch': [node...], 'catch': [bool...], 'raises': bool,
#          'fin': [bool...]   (def only) the call sits in try/finally and the finally clause logs too,
#          'ctl': [None|'if'|'for'|'while'...]  the call sits inside that construct (lambda: 'if' = conditional expr),
#          'rctl': None|'if'|'for'|'while'      same for the raise statement (def only)}
# wrap  = {'k': 'plain'} | {'k': 'dnc'} | {'k': 'tograph', 'rec': b, 'feat': F|None}
#       | {'k': 'conv', 'rec': b, 'ur': b, 'cctx': src|None, 'feat': F|None}
#       | {'k': 'iconv', 'src': src, 'cbd': b, 'ur': b}
#       | {'k': 'cblock', 'status': S, 'inline': b}
# src   = ['fresh', S] | ['current'] | ['anc', up] | ['top']
# F     = optional feature name; NAME_SCOPES / AUTO_CONTROL_DEPS are public Feature members this fork
#         does not support: the converted function raises AssertionError while building its function
#         scope, i.e. before its body runs (an exception out of converted code like any other)
# The root of a tree is the driver: a plain def node that catches every child.
UNSUPPORTED = ('NAME_SCOPES', 'AUTO_CONTROL_DEPS')


def number(tree):
  """Assigns preorder ids (root = 0) and parent links on a deep copy."""
  import copy
  root = copy.deepcopy(tree)
  cnt = [0]

  def rec(n, parent):
    n['id'] = cnt[0]
    cnt[0] += 1
    n['parent'] = parent
    n.setdefault('catch', [False] * len(n['ch']))
    for c in n['ch']:
      rec(c, n)
  rec(root, None)
  return root


def nodes_of(root):
  out = []

  def rec(n):
    out.append(n)
    for c in n['ch']:
      rec(c)
  rec(root)
  return out


def _anc(node, up):
  """The up-th ancestor above the *caller* of `node` (caller = node['parent']); None if absent."""
  a = node['parent']
  for _ in range(up):
    if a is None:
      return None
    a = a['parent']
  return a


CUR = 'malt.control_status_ctx()'


def _src_expr(node, src):
  if src[0] == 'fresh':
    return 'ag_ctx.ControlStatusCtx(ag_ctx.Status.%s)' % src[1]
  if src[0] == 'current':
    return CUR
  if src[0] == 'anc':
    a = _anc(node, src[1])
    if a is not None:
      return 'env[%d]' % a['id']
    return "env['top']"
  return "env['top']"


def _feat_expr(w):
  return 'malt.experimental.Feature.%s' % w['feat'] if w.get('feat') else 'None'


def _static_wrapper(n):
  """Module-level `cK = ...` line for wrappers that do not depend on the call site; None otherwise."""
  w, k = n['wrap'], n['id']
  if w['k'] == 'plain':
    return 'c%d = f%d' % (k, k)
  if w['k'] == 'dnc':
    return 'c%d = malt.experimental.do_not_convert(f%d)' % (k, k)
  if w['k'] == 'tograph':
    return 'c%d = malt.to_graph(f%d, recursive=%s, experimental_optional_features=%s)' % (k, k, w['rec'], _feat_expr(w))
  if w['k'] == 'conv' and w.get('cctx') is None:
    return 'c%d = malt.convert(recursive=%s, user_requested=%s, optional_features=%s)(f%d)' % (
        k, w['rec'], w['ur'], _feat_expr(w), k)
  if w['k'] == 'cblock' and not _inline_block(n):
    return ('def c%d(log, env):\n  with ag_ctx.ControlStatusCtx(ag_ctx.Status.%s):\n    return f%d(log, env)'
            % (k, w['status'], k))
  return None


def _inline_block(n):
  return n['wrap']['k'] == 'cblock' and n['wrap'].get('inline') and n['parent'] is not None and n['parent']['form'] == 'def'


def _call_expr(n):
  w, k = n['wrap'], n['id']
  if w['k'] == 'conv' and w.get('cctx') is not None:
    return 'malt.convert(recursive=%s, user_requested=%s, optional_features=%s, conversion_ctx=%s)(f%d)(log, env)' % (
        w['rec'], w['ur'], _feat_expr(w), _src_expr(n, w['cctx']), k)
  if w['k'] == 'iconv':
    return 'malt.internal.convert(f%d, %s, convert_by_default=%s, user_requested=%s)(log, env)' % (
        k, _src_expr(n, w['src']), w['cbd'], w['ur'])
  if _inline_block(n):
    return 'f%d(log, env)' % k
  return 'c%d(log, env)' % k


def _ctl(n, i):
  c = (n.get('ctl') or [None] * len(n['ch']))[i]
  if n['form'] == 'lam' and c != 'if':
    return None
  return c


def _fin(n, i):
  return n['form'] == 'def' and bool((n.get('fin') or [False] * len(n['ch']))[i])


def render(tree):
  root = number(tree)
  lines = ['import sys', 'import malt', 'from malt.core import ag_ctx', '']
  wrappers = []
  for n in nodes_of(root):
    k = n['id']
    if n['form'] == 'lam':
      parts = ['env.update({%d: %s})' % (k, CUR), "log.append(('enter', %d, None, %s))" % (k, CUR)]
      for i, c in enumerate(n['ch']):
        parts.append("log.append(('pre', %d, %d, %s))" % (k, i, CUR))
        if _ctl(n, i) == 'if':
          parts.append('(%s if env is not None else None)' % _call_expr(c))
        else:
          parts.append(_call_expr(c))
        parts.append("log.append(('post', %d, %d, %s))" % (k, i, CUR))
      parts.append("log.append(('leave', %d, None, %s))" % (k, CUR))
      if n['raises']:
        parts.append("{}['BOOM' + '<%d>']" % k)  # split so that quoted source lines never contain the marker
      lines.append('f%d = lambda log, env: (%s, %d)[-1]' % (k, ', '.join(parts), k))
      lines.append('')
    else:
      b = ['def f%d(log, env):' % k,
           '  cx = %s' % CUR,
           '  env[%d] = cx' % k,
           "  log.append(('enter', %d, None, cx))" % k]

      def nest(ind, ctl, tag):
        """Opens the control-flow construct `ctl` (the converter turns it into an operator call)."""
        if ctl == 'if':
          b.append(ind + 'if env is not None:')
        elif ctl == 'for':
          b.append(ind + 'for it_%s in (0,):' % tag)
        elif ctl == 'while':
          b.append(ind + 'w_%s = 0' % tag)
          b.append(ind + 'while w_%s < 1:' % tag)
          b.append(ind + '  w_%s += 1' % tag)
        return ind + '  ' if ctl else ind

      for i, c in enumerate(n['ch']):
        b.append("  log.append(('pre', %d, %d, %s))" % (k, i, CUR))
        ind = '  '
        guarded = n['catch'][i] or _fin(n, i)
        if guarded:
          b.append('  try:')
          ind = '    '
        ind = nest(ind, _ctl(n, i), str(i))
        if _inline_block(c):
          b.append(ind + 'with ag_ctx.ControlStatusCtx(ag_ctx.Status.%s):' % c['wrap']['status'])
          b.append(ind + '  ' + _call_expr(c))
        else:
          b.append(ind + _call_expr(c))
        if n['catch'][i]:
          b.append('  except Exception:')
          b.append("    log.append(('caught', %d, %d, %s, sys.exc_info()[1]))" % (k, i, CUR))
        if _fin(n, i):
          b.append('  finally:')
          b.append("    log.append(('fin', %d, %d, %s))" % (k, i, CUR))
        b.append("  log.append(('post', %d, %d, %s))" % (k, i, CUR))
      b.append("  log.append(('leave', %d, None, %s))" % (k, CUR))
      if n['raises']:
        ind = nest('  ', n.get('rctl'), 'r')
        b.append(ind + "raise ValueError('BOOM' + '<%d>')" % k)
      b.append('  return %d' % k)
      lines.extend(b)
      lines.append('')
    sw = _static_wrapper(n)
    if sw is not None and k != 0:
      wrappers.append(sw)
  lines.extend(wrappers)
  lines.append('')
  return '\n'.join(lines)


# ------------------------------------------------------------------------------------------------
# model


class Tok(object):
  __slots__ = ('status', 'why')

  def __init__(self, status, why):
    self.status = status
    self.why = why


class _Boom(Exception):
  def __init__(self, node):
    Exception.__init__(self)
    self.node = node
    self.crossed = 0  # context-pushing calls unwound so far


def simulate(root, init_stack):
  """Expected events [(ev, node id, idx, Tok, extra)] for one run of the (numbered) driver node.

  Also returns info: max number of context-pushing calls an exception crossed before being caught,
  per-node entry relation ('caller' / 'passed' / 'fresh'), number of pushes.
  """
  ev = []
  info = {'max_crossed': 0, 'rel': {}, 'pushes': 0, 'exc_caught': 0, 'entered': 0, 'disabled_skip': 0, 'scope_fails': 0}
  stack = list(init_stack)
  entry = {}

  def resolve(node, src):
    if src[0] == 'fresh':
      return Tok(src[1], 'fresh')
    if src[0] == 'current':
      return stack[-1]
    if src[0] == 'anc':
      a = _anc(node, src[1])
      if a is not None:
        return entry[a['id']]
      return init_stack[-1]
    return init_stack[-1]

  def conv(node, ur, cctx):
    rel = 'caller'
    if cctx is not None:
      stack.append(cctx)
      rel = 'passed'
    if stack[-1].status == 'DISABLED':
      info['disabled_skip'] += 1
      return rel
    if node['wrap'].get('feat') in UNSUPPORTED:
      return 'scope-fails'
    if ur:
      stack.append(Tok('ENABLED', 'function-scope'))
      rel = 'fresh'
    return rel

  def call(ch):
    n0 = len(stack)
    w = ch['wrap']
    rel = 'caller'
    if w['k'] == 'dnc':
      stack.append(Tok('DISABLED', 'do_not_convert'))
      rel = 'fresh'
    elif w['k'] == 'cblock':
      stack.append(Tok(w['status'], 'block'))
      rel = 'fresh'
    elif w['k'] == 'tograph':
      if w.get('feat') in UNSUPPORTED:
        rel = 'scope-fails'
      else:
        stack.append(Tok('ENABLED', 'function-scope'))
        rel = 'fresh'
    elif w['k'] == 'conv':
      cctx = resolve(ch, w['cctx']) if w.get('cctx') is not None else None
      rel = conv(ch, w['ur'], cctx)
    elif w['k'] == 'iconv':
      t = resolve(ch, w['src'])
      if t.status == 'ENABLED' or (t.status == 'UNSPECIFIED' and w['cbd']):
        rel = conv(ch, w['ur'], t)
      elif t.status == 'DISABLED':
        stack.append(Tok('DISABLED', 'do_not_convert'))
        rel = 'fresh'
      else:
        stack.append(Tok('UNSPECIFIED', 'unspecified-wrapper'))
        rel = 'fresh'
    npush = len(stack) - n0
    info['pushes'] += npush
    info['rel'][ch['id']] = rel
    try:
      if rel == 'scope-fails':
        info['scope_fails'] += 1
        raise _Boom(-1)
      body(ch)
    except _Boom as b:
      if npush:
        b.crossed += 1
      raise
    finally:
      del stack[n0:]

  def body(n):
    k = n['id']
    entry[k] = stack[-1]
    info['entered'] += 1
    ev.append(('enter', k, None, stack[-1], None))
    for i, c in enumerate(n['ch']):
      ev.append(('pre', k, i, stack[-1], None))
      try:
        call(c)
      except _Boom as b:
        if n['form'] != 'def' or not n['catch'][i]:
          if _fin(n, i):
            ev.append(('fin', k, i, stack[-1], None))
          raise
        info['max_crossed'] = max(info['max_crossed'], b.crossed)
        info['exc_caught'] += 1
        ev.append(('caught', k, i, stack[-1], b.node))
      if _fin(n, i):
        ev.append(('fin', k, i, stack[-1], None))
      ev.append(('post', k, i, stack[-1], None))
    ev.append(('leave', k, None, stack[-1], None))
    if n['raises']:
      raise _Boom(k)

  escaped = None
  try:
    body(root)
  except _Boom as b:
    escaped = b.node
    info['max_crossed'] = max(info['max_crossed'], b.crossed)
  return ev, escaped, info


# ------------------------------------------------------------------------------------------------
# execution


def _status_name(c):
  try:
    return c.status.name
  except Exception:
    return repr(getattr(c, 'status', c))


def _boom_of(e):
  """Node id of a generated exception, -1 for the unsupported-feature assertion, None for anything else."""
  m = _BOOM.findall(str(e))
  if m:
    return int(m[-1])
  if isinstance(e, AssertionError) and 'are not supported' in str(e):
    return -1
  return None


def _run_runner(mod, spec, out, barrier):
  """Runs in the runner's own thread. Records raw observations into `out`."""
  try:
    stack = ag_ctx._control_ctx()
    out['init_len'] = len(stack)
    out['init_saved'] = list(stack)
    out['init_top'] = malt.control_status_ctx()
  except Exception as e:  # broken accessor: property failure, reported by the oracle
    out['init_error'] = e
    stack = None
  if barrier is not None:
    barrier.wait(timeout=120)
  if 'init_error' in out:
    return
  cm = None
  try:
    if spec.get('outer'):
      cm = ag_ctx.ControlStatusCtx(ag_ctx.Status[spec['outer']])
      cm.__enter__()
      out['outer_obj'] = cm
    for _ in range(spec.get('rounds', 1)):
      r = {}
      out['rounds'].append(r)
      log, env = [], {}
      r['log'] = log
      try:
        r['before'] = malt.control_status_ctx()
        r['len_before'] = len(ag_ctx._control_ctx())
        env['top'] = r['before']
        if mod is not None:
          mod.f0(log, env)
      except BaseException as e:  # pylint:disable=broad-except
        r['escaped'] = e
      try:
        r['after'] = malt.control_status_ctx()
        r['len_after'] = len(ag_ctx._control_ctx())
      except Exception as e:
        r['after_error'] = e
  except BaseException as e:  # pylint:disable=broad-except
    out['runner_error'] = e
  finally:
    if cm is not None:
      try:
        cm.__exit__(None, None, None)
      except BaseException as e:  # pylint:disable=broad-except
        out['outer_exit_error'] = e
    try:
      out['final_top'] = malt.control_status_ctx()
      out['final_len'] = len(ag_ctx._control_ctx())
    except Exception as e:
      out['final_error'] = e
    # leave the thread (matters for the calling thread, which lives on) as it was found
    try:
      cur = ag_ctx._control_ctx()
      sv = out['init_saved']
      if len(cur) != len(sv) or any(a is not b for a, b in zip(cur, sv)):
        cur[:] = sv
        out['repaired'] = True
    except Exception:
      try:
        ag_ctx.stacks.control_status = list(out['init_saved'])
      except Exception:
        pass


def _wrapkind(n):
  w = n['wrap']
  if w['k'] == 'conv':
    return 'convert(ur=%s%s)' % (w['ur'], ',ctx' if w.get('cctx') is not None else '')
  if w['k'] == 'iconv':
    return 'internal.convert(ur=%s)' % w['ur']
  return {'dnc': 'do_not_convert', 'tograph': 'to_graph', 'cblock': 'ctx-block', 'plain': 'plain'}[w['k']]


def check_run(root, byid, outer, r, fails, where):
  """Oracle for one tree run. r = raw round record. Appends (bucket, detail)."""
  log = r['log']

  def desc(c):
    return '%s#%d' % (_status_name(c), objs.setdefault(id(c), len(objs)))
  objs = {}

  def add(bucket, detail):
    d = dict(detail)
    d['where'] = where
    fails.append((bucket, d))

  if 'after_error' in r:
    add('stack:unreadable:' + harness.exc_bucket(r['after_error']), {'exc': repr(r['after_error'])})
    return None
  # ---- top of stack / length restored around the whole tree
  if r['after'] is not r['before']:
    add('identity:tree-top', {'before': desc(r['before']), 'after': desc(r['after'])})
  if r['len_after'] != r['len_before']:
    add('stack:length', {'before': r['len_before'], 'after': r['len_after']})

  # ---- identity, model free: all observations of one node activation are one object
  first = {}
  for e in log:
    ev, k, i, c = e[0], e[1], e[2], e[3]
    if k not in first:
      first[k] = c
    elif c is not first[k]:
      n = byid.get(k)
      kind = {'post': 'after-return', 'caught': 'after-caught-raise', 'pre': 'before-call', 'leave': 'at-leave',
              'enter': 're-enter', 'fin': 'in-finally'}[ev]
      if ev == 'post' and any(x[0] == 'caught' and x[1] == k and x[2] == i for x in log):
        kind = 'after-caught-raise'
      callee = n['ch'][i] if (n is not None and i is not None and i < len(n['ch'])) else None
      add('identity:' + kind, {'node': k, 'child_index': i, 'callee': _wrapkind(callee) if callee else None,
                               'callee_form': callee['form'] if callee else None,
                               'on_entry': desc(first[k]), 'now': desc(c)})
      break

  # ---- model
  init = [Tok(_status_name(r['before']), 'initial')]
  exp, exp_escaped, info = simulate(root, init)
  # unexpected exceptions first: they explain a diverging trace best
  for e in log:
    if e[0] == 'caught' and _boom_of(e[4]) is None:
      add('trace:unexpected-exception:' + harness.exc_bucket(e[4]), {'node': e[1], 'exc': repr(e[4])[:400]})
      break
  esc = r.get('escaped')
  if esc is not None and (not isinstance(esc, Exception) or _boom_of(esc) is None):
    add('trace:escaped-exception:' + harness.exc_bucket(esc), {'exc': repr(esc)[:400]})
  elif (esc is None) != (exp_escaped is None) or (esc is not None and _boom_of(esc) != exp_escaped):
    add('trace:escape', {'expected': exp_escaped, 'got': repr(esc)[:300]})
  canon_e, canon_a = {}, {}
  for j in range(max(len(exp), len(log))):
    if j >= len(exp) or j >= len(log):
      add('trace:length', {'expected': len(exp), 'got': len(log),
                           'next_expected': repr(exp[j][:3]) if j < len(exp) else None,
                           'next_got': repr(log[j][:3]) if j < len(log) else None})
      break
    x, a = exp[j], log[j]
    if (x[0], x[1], x[2]) != (a[0], a[1], a[2]):
      add('trace:event:expected-%s-got-%s' % (x[0], a[0]), {'expected': repr(x[:3]), 'got': repr(a[:3]), 'index': j})
      break
    n = byid[x[1]]
    got_status = _status_name(a[3])
    if x[3].status != got_status:
      if x[0] == 'enter':
        add('status:%s:expected-%s-got-%s' % (_wrapkind(n), x[3].status, got_status),
            {'node': x[1], 'form': n['form'], 'wrap': n['wrap'], 'caller_status': _status_name(first.get(
                n['parent']['id'])) if n['parent'] is not None and n['parent']['id'] in first else None})
      else:
        add('status:at-%s:expected-%s-got-%s' % (x[0], x[3].status, got_status), {'node': x[1], 'index': j})
      break
    ce = canon_e.setdefault(id(x[3]), len(canon_e))
    ca = canon_a.setdefault(id(a[3]), len(canon_a))
    if ce != ca:
      rel = info['rel'].get(x[1], 'initial') if x[0] == 'enter' else 'same-as-entry'
      add('ctx-object:%s:expected-%s' % (_wrapkind(n) if x[0] == 'enter' else 'at-' + x[0], rel),
          {'node': x[1], 'form': n['form'], 'wrap': n['wrap'], 'index': j, 'expected_canon': ce, 'got_canon': ca,
           'got': desc(a[3])})
      break
    if x[0] == 'caught' and _boom_of(a[4]) != x[4]:
      add('trace:caught-wrong-exception', {'node': x[1], 'expected_from': x[4], 'got': repr(a[4])[:300]})
      break
  return info


def _retire(mod):
  """Removes the module's file / sys.modules / linecache entries but keeps the module object (and so
  its code objects, which key malt's weak cache) alive for the life of the process."""
  import linecache
  import os
  import sys
  sys.modules.pop(mod.__name__, None)
  p = getattr(mod, '__file__', None)
  if p:
    linecache.cache.pop(p, None)
    try:
      os.unlink(p)
    except OSError:
      pass
  _KEEP.append(mod)


def run_case(case):
  """Executes a case. Returns (fails, info)."""
  mods = []
  try:
    return _run_case(case, mods)
  finally:
    for m in mods:
      _retire(m)


def _run_case(case, mods):
  fails = []
  info = {'runs': 0, 'max_crossed': 0, 'pushes': 0, 'exc_caught': 0, 'entered': 0, 'disabled_skip': 0, 'scope_fails': 0,
          'rels': set()}
  roots = []
  for t in case['trees']:
    root = number(t)
    roots.append((root, {n['id']: n for n in nodes_of(root)}))
    try:
      mods.append(harness.load_module(render(t)))
    except Exception as e:
      # import runs to_graph eagerly: a conversion failure there is a property-relevant event only
      # if malt raised; a SyntaxError is a generator slip (harness error)
      if isinstance(e, SyntaxError):
        raise
      fails.append(('load:' + harness.exc_bucket(e), {'exc': repr(e)[:400]}))
      return fails, info

  specs = []
  if case.get('main') is not None:
    specs.append(('main', case['main']))
  for i, t in enumerate(case.get('threads', [])):
    specs.append(('thread%d' % i, t))
  outs = [{'rounds': []} for _ in specs]
  nthreads = len(case.get('threads', []))
  barrier = threading.Barrier(len(specs)) if nthreads and len(specs) > 1 else None

  main_before = malt.control_status_ctx()
  main_stack_before = list(ag_ctx._control_ctx())
  threads = []
  for (name, sp), out in zip(specs, outs):
    mod = mods[sp['tree']] if sp.get('tree') is not None else None
    if name == 'main':
      continue
    th = threading.Thread(target=_run_runner, args=(mod, sp, out, barrier), name='c16-' + name)
    th.daemon = True
    threads.append(th)
  for th in threads:
    th.start()
  if specs and specs[0][0] == 'main':
    sp = specs[0][1]
    _run_runner(mods[sp['tree']] if sp.get('tree') is not None else None, sp, outs[0], barrier)
  polled_bad = None
  for th in threads:
    # the calling thread keeps looking at its own status while the others run (the number of looks
    # depends on the schedule, the verdict does not)
    for _ in range(60000):
      th.join(0.005)
      try:
        if polled_bad is None and malt.control_status_ctx() is not main_before:
          polled_bad = _status_name(malt.control_status_ctx())
      except Exception as e:
        polled_bad = repr(e)
      if not th.is_alive():
        break
    if th.is_alive():
      raise RuntimeError('runner thread did not finish (harness)')
  if polled_bad is not None:
    fails.append(('thread:calling-thread-status-changed-while-threads-run', {'saw': polled_bad}))
  try:
    main_after = malt.control_status_ctx()
    main_stack_after = list(ag_ctx._control_ctx())
    if main_after is not main_before or len(main_stack_after) != len(main_stack_before) or any(
        a is not b for a, b in zip(main_stack_after, main_stack_before)):
      fails.append(('thread:calling-thread-status-changed' if nthreads else 'stack:calling-thread-not-restored',
                    {'before': [_status_name(c) for c in main_stack_before],
                     'after': [_status_name(c) for c in main_stack_after]}))
      ag_ctx._control_ctx()[:] = main_stack_before
  except Exception as e:
    fails.append(('stack:unreadable:' + harness.exc_bucket(e), {'exc': repr(e)}))
    ag_ctx.stacks.control_status = list(main_stack_before)

  seen = []  # per runner: {id(obj)}
  run_fails = []  # per-run oracle clauses are listed before the whole-runner ones
  for (name, sp), out in zip(specs, outs):
    mine = set()
    seen.append(mine)
    if 'init_error' in out:
      fails.append(('stack:unreadable:' + harness.exc_bucket(out['init_error']), {'where': name}))
      continue
    if 'runner_error' in out:
      e = out['runner_error']
      fails.append(('runner:' + harness.exc_bucket(e), {'where': name, 'exc': repr(e)[:400]}))
    if 'outer_exit_error' in out:
      e = out['outer_exit_error']
      fails.append(('outer-block-exit:' + harness.exc_bucket(e), {'where': name, 'exc': repr(e)[:400]}))
    if 'final_error' in out:
      fails.append(('stack:unreadable:' + harness.exc_bucket(out['final_error']), {'where': name}))
    else:
      if out.get('final_top') is not out['init_top']:
        fails.append(('stack:top-after-runner', {'where': name, 'init': _status_name(out['init_top']),
                                                 'final': _status_name(out.get('final_top'))}))
      if out.get('final_len') != out['init_len']:
        fails.append(('stack:length-after-runner', {'where': name, 'init': out['init_len'], 'final': out.get('final_len')}))
    if name != 'main':
      if _status_name(out['init_top']) != 'UNSPECIFIED' or out['init_len'] != 1:
        fails.append(('thread:initial-not-default', {'where': name, 'status': _status_name(out['init_top']),
                                                     'stack_len': out['init_len']}))
      if out['init_top'] is main_before or any(out['init_top'] is c for c in main_stack_before):
        fails.append(('thread:initial-is-calling-threads-ctx', {'where': name}))
    mine.add(id(out['init_top']))
    if sp.get('tree') is None:
      continue
    root, byid = roots[sp['tree']]
    for ri, r in enumerate(out['rounds']):
      if 'before' not in r:
        continue
      inf = check_run(root, byid, sp.get('outer'), r, run_fails, '%s/round%d' % (name, ri))
      info['runs'] += 1
      for e in r['log']:
        mine.add(id(e[3]))
      mine.add(id(r['before']))
      if 'after' in r:
        mine.add(id(r['after']))
      if inf is not None:
        info['max_crossed'] = max(info['max_crossed'], inf['max_crossed'])
        for f in ('pushes', 'exc_caught', 'entered', 'disabled_skip', 'scope_fails'):
          info[f] += inf[f]
        info['rels'].update(inf['rel'].values())
  for i in range(len(seen)):
    for j in range(i + 1, len(seen)):
      common_ids = seen[i] & seen[j]
      if common_ids:
        fails.append(('thread:ctx-object-shared-between-threads',
                      {'runners': [specs[i][0], specs[j][0]], 'n_shared': len(common_ids)}))
        break
    else:
      continue
    break
  # outs (logs) hold the ctx objects alive until here, so id() is unambiguous
  out_fails, seenb = [], set()
  for b, d in run_fails + fails:
    if b not in seenb:
      seenb.add(b)
      out_fails.append((b, d))
  return out_fails, info


# ------------------------------------------------------------------------------------------------
# generator

_bool = st.booleans()
_ctls = st.sampled_from([None, None, None, 'if', 'for', 'while'])
_feat = st.sampled_from([None, None, None, None, None, 'BUILTIN_FUNCTIONS', 'EQUALITY_OPERATORS', 'NAME_SCOPES',
                         'AUTO_CONTROL_DEPS'])


def _src_strategy():
  return st.one_of(
      st.tuples(st.just('fresh'), st.sampled_from(STATUSES)).map(list),
      st.tuples(st.just('fresh'), st.sampled_from(STATUSES)).map(list),
      st.just(['current']),
      st.tuples(st.just('anc'), st.integers(1, 3)).map(list),
      st.tuples(st.just('anc'), st.integers(1, 3)).map(list),
      st.just(['top']),
  )


@st.composite
def _wrap(draw):
  k = draw(st.sampled_from(['plain', 'conv', 'conv', 'conv', 'dnc', 'dnc', 'iconv', 'iconv', 'cblock', 'tograph']))
  if k == 'conv':
    return {'k': 'conv', 'rec': draw(_bool), 'ur': draw(_bool),
            'cctx': draw(_src_strategy()) if draw(st.sampled_from([False, False, True])) else None, 'feat': draw(_feat)}
  if k == 'iconv':
    return {'k': 'iconv', 'src': draw(_src_strategy()), 'cbd': draw(_bool), 'ur': draw(_bool)}
  if k == 'cblock':
    return {'k': 'cblock', 'status': draw(st.sampled_from(STATUSES)), 'inline': draw(_bool)}
  if k == 'tograph':
    return {'k': 'tograph', 'rec': draw(_bool), 'feat': draw(_feat)}
  return {'k': k}


@st.composite
def trees(draw, max_depth, max_nodes, max_fan):
  left = [draw(st.integers(1, max_nodes))]

  def node(depth):
    left[0] -= 1
    form = draw(st.sampled_from(['def', 'def', 'lam']))
    wrap = draw(_wrap())
    ch = []
    if depth < max_depth and left[0] > 0:
      # chains are what stacks contexts: prefer >= 1 child while budget lasts
      nch = draw(st.integers(0, min(max_fan, left[0])))
      if nch == 0 and depth < 2 and draw(_bool):
        nch = 1
      for _ in range(nch):
        if left[0] <= 0:
          break
        ch.append(node(depth + 1))
    raises = draw(st.sampled_from([True, False] if not ch else [True, False, False, False]))
    catch = [form == 'def' and draw(_bool) for _ in ch]
    fin = [form == 'def' and draw(st.sampled_from([False, False, True])) for _ in ch]
    ctl = [draw(_ctls) if form == 'def' else draw(st.sampled_from([None, None, 'if'])) for _ in ch]
    rctl = draw(_ctls) if (form == 'def' and raises) else None
    return {'form': form, 'wrap': wrap, 'ch': ch, 'catch': catch, 'fin': fin, 'ctl': ctl, 'raises': raises, 'rctl': rctl}

  top = []
  nroot = draw(st.integers(1, 2))
  for _ in range(nroot):
    if left[0] <= 0 and top:
      break
    top.append(node(1))
  return {'form': 'def', 'wrap': {'k': 'plain'}, 'ch': top, 'catch': [True] * len(top), 'fin': [False] * len(top),
          'ctl': [None] * len(top), 'raises': False, 'rctl': None}


@st.composite
def cases(draw, b):
  mode = draw(st.sampled_from(['main', 'main', 'main', 'thread1', 'threads', 'threads']))
  outer = st.sampled_from([None, None, 'ENABLED', 'DISABLED', 'UNSPECIFIED'])
  rounds = st.sampled_from([1, 1, 2])
  tr = trees(b['max_depth'], b['max_nodes'], b['max_fan'])
  if mode == 'main':
    return {'trees': [draw(tr)], 'main': {'tree': 0, 'outer': draw(outer), 'rounds': draw(rounds)}, 'threads': []}
  if mode == 'thread1':
    return {'trees': [draw(tr)], 'main': {'tree': None, 'outer': draw(outer), 'rounds': 1},
            'threads': [{'tree': 0, 'outer': draw(outer), 'rounds': draw(rounds)}]}
  ntrees = draw(st.integers(1, 3))
  small = trees(max(2, b['max_depth'] - 1), max(3, b['max_nodes'] // 2), b['max_fan'])
  pool = [draw(small) for _ in range(ntrees)]
  nth = draw(st.integers(2, b['max_threads']))
  main_tree = draw(st.sampled_from([None] + list(range(ntrees))))
  return {'trees': pool, 'main': {'tree': main_tree, 'outer': draw(outer), 'rounds': 1},
          'threads': [{'tree': draw(st.integers(0, ntrees - 1)), 'outer': draw(outer), 'rounds': draw(rounds)}
                      for _ in range(nth)]}


# ------------------------------------------------------------------------------------------------
# runner API


def _classes(case, info):
  cl = []
  nth = len(case['threads'])
  cl.append('threads=%s' % ('0' if nth == 0 else '1' if nth == 1 else '2-4' if nth <= 4 else '5-8' if nth <= 8 else '9-16'))
  if case['main'] and case['main'].get('outer'):
    cl.append('calling_thread_inside_outer_block')
  if any(t.get('outer') for t in case['threads']):
    cl.append('thread_inside_outer_block')
  if any(s.get('rounds', 1) > 1 for s in [case['main']] + case['threads'] if s):
    cl.append('tree_run_twice')
  kinds, forms, srcs, feats = set(), set(), set(), set()
  depth = [0]
  nn = 0
  for t in case['trees']:
    root = number(t)
    for n in nodes_of(root):
      if n['id'] == 0:
        continue
      nn += 1
      kinds.add(_wrapkind(n))
      forms.add(n['form'])
      w = n['wrap']
      s = w.get('cctx') if w['k'] == 'conv' else w.get('src') if w['k'] == 'iconv' else None
      if s is not None:
        srcs.add(s[0] + (':' + s[1] if s[0] == 'fresh' else ''))
      if w['k'] == 'cblock':
        kinds.add('ctx-block:' + ('inline' if _inline_block(n) else 'helper'))
      if any(_fin(n, i) for i in range(len(n['ch']))):
        feats.add('call_in_try_finally')
      for i in range(len(n['ch'])):
        if _ctl(n, i):
          feats.add('call_inside_' + _ctl(n, i))
      if n['raises'] and n['form'] == 'def' and n.get('rctl'):
        feats.add('raise_inside_' + n['rctl'])
      if n['form'] == 'lam' and w['k'] in ('conv', 'iconv', 'tograph') and w.get('ur', True):
        feats.add('user_requested_lambda' + ('_raising' if n['raises'] else ''))
      d, a = 0, n
      while a['parent'] is not None:
        d, a = d + 1, a['parent']
      depth[0] = max(depth[0], d)
  cl += ['wrap:' + k for k in sorted(kinds)] + ['form:' + f for f in sorted(forms)] + ['ctxsrc:' + s for s in sorted(srcs)]
  cl += sorted(feats)
  cl.append('depth=%d' % depth[0])
  cl.append('nodes=%s' % ('1-3' if nn <= 3 else '4-8' if nn <= 8 else '9-16' if nn <= 16 else '17+'))
  cl.append('exception_crossed_pushing_calls=%s' % (info['max_crossed'] if info['max_crossed'] < 4 else '4+'))
  if info['exc_caught']:
    cl.append('exception_caught_by_generated_ancestor')
  if info['disabled_skip']:
    cl.append('convert_called_while_disabled')
  if info['scope_fails']:
    cl.append('function_scope_construction_raises(unsupported_feature)')
  for r in sorted(info['rels']):
    cl.append('entry_ctx:' + r)
  return cl, nn


class _Spy(object):
  """Counts (never alters) conversions that fell back and function scopes entered: tells how much of
  the generated code really ran converted. Installed for the duration of a shard only."""

  def __init__(self):
    self.fallbacks = 0
    self.scopes = 0
    self.user_scopes = 0

  def __enter__(self):
    from malt.impl import api
    from malt.operators import function_wrappers
    spy = self
    self._api, self._fw = api, function_wrappers
    self._orig_fb = api._fall_back_unconverted
    self._orig_enter = function_wrappers.FunctionScope.__enter__

    def fb(*a, **k):
      spy.fallbacks += 1
      return spy._orig_fb(*a, **k)

    def enter(scope):
      spy.scopes += 1
      if getattr(scope.options, 'user_requested', False):
        spy.user_scopes += 1
      return spy._orig_enter(scope)
    api._fall_back_unconverted = fb
    function_wrappers.FunctionScope.__enter__ = enter
    return self

  def __exit__(self, *exc):
    self._api._fall_back_unconverted = self._orig_fb
    self._fw.FunctionScope.__enter__ = self._orig_enter


def shard(ctx, acc):
  b = ctx.budget
  n = ctx.share('trees')
  with _Spy() as spy:
    _shard(ctx, acc, b, n)
  acc.count('function_scopes_entered(converted_activations)', spy.scopes)
  acc.count('function_scopes_entered_user_requested', spy.user_scopes)
  acc.count('conversions_fell_back_to_unconverted', spy.fallbacks)


def _shard(ctx, acc, b, n):

  def body(case):
    fails, info = run_case(case)
    cl, nn = _classes(case, info)
    nontriv = info['max_crossed'] >= 2
    sample = None
    if nontriv and (len(acc.samples) < acc.MAX_SAMPLES or nn > (acc.biggest[0] if acc.biggest else 0)):
      sample = case
    acc.case(key=common.h8(case), nontrivial=nontriv, classes=cl, sample=sample, size=nn, n=max(1, info['runs']))
    acc.count('cases')
    acc.count('node_activations', info['entered'])
    acc.count('contexts_pushed_per_model', info['pushes'])
    for bkt, d in fails:
      acc.fail(bkt, case, d)

  common.hyp_run(ctx, cases(b), body, n)


def replay(case):
  fails, _ = run_case(case)
  return [{'bucket': b, 'detail': d} for b, d in fails]


def _variants(case):
  """Smaller cases, most aggressive first."""
  import copy
  # fewer runners
  if case['threads']:
    for t in case['threads']:
      yield dict(case, threads=[t], main=dict(case['main'], tree=None) if case['main'] else None)
      yield {'trees': case['trees'], 'main': {'tree': t['tree'], 'outer': t.get('outer'), 'rounds': t.get('rounds', 1)},
             'threads': []}
    if len(case['threads']) > 1:
      yield dict(case, threads=case['threads'][:len(case['threads']) // 2])
  used = sorted({s['tree'] for s in [case['main']] + case['threads'] if s and s.get('tree') is not None})
  if len(used) < len(case['trees']):
    c = copy.deepcopy(case)
    c['trees'] = [case['trees'][i] for i in used]
    for s in [c['main']] + c['threads']:
      if s and s.get('tree') is not None:
        s['tree'] = used.index(s['tree'])
    yield c
  for s_i, s in enumerate([case['main']] + case['threads']):
    if not s:
      continue
    for fld, v in (('rounds', 1), ('outer', None)):
      if s.get(fld) != v:
        c = copy.deepcopy(case)
        tgt = c['main'] if s_i == 0 else c['threads'][s_i - 1]
        tgt[fld] = v
        yield c
  # tree edits
  for ti, t in enumerate(case['trees']):
    paths = []

    def rec(n, p):
      paths.append(p)
      for i, c in enumerate(n['ch']):
        rec(c, p + [i])
    rec(t, [])

    def at(root, p):
      n = root
      for i in p:
        n = n['ch'][i]
      return n
    for p in paths:
      if not p:
        continue
      # delete the subtree
      c = copy.deepcopy(case)
      par = at(c['trees'][ti], p[:-1])
      del par['ch'][p[-1]]
      for fld in ('catch', 'fin', 'ctl'):
        if fld in par:
          del par[fld][p[-1]]
      yield c
      # replace the node by its children
      c = copy.deepcopy(case)
      par = at(c['trees'][ti], p[:-1])
      me = par['ch'][p[-1]]
      if me['ch']:
        par['ch'][p[-1]:p[-1] + 1] = me['ch']
        for fld in ('catch', 'fin', 'ctl'):
          if fld in par:
            par[fld][p[-1]:p[-1] + 1] = [par[fld][p[-1]]] * len(me['ch'])
        yield c
    for p in paths:
      if not p:
        continue
      n = at(t, p)
      edits = []
      if n['wrap']['k'] != 'plain':
        edits.append(('wrap', {'k': 'plain'}))
      if n['wrap']['k'] == 'conv' and n['wrap'].get('cctx') is not None:
        edits.append(('wrap', dict(n['wrap'], cctx=None)))
      if n['wrap'].get('feat'):
        edits.append(('wrap', dict(n['wrap'], feat=None)))
      if n['form'] == 'lam':
        edits.append(('form', 'def'))
      if n['raises']:
        edits.append(('raises', False))
      if any(n['catch']):
        edits.append(('catch', [False] * len(n['catch'])))
      if any(n.get('fin') or []):
        edits.append(('fin', [False] * len(n['ch'])))
      if any(n.get('ctl') or []):
        edits.append(('ctl', [None] * len(n['ch'])))
      if n.get('rctl'):
        edits.append(('rctl', None))
      for fld, v in edits:
        c = copy.deepcopy(case)
        at(c['trees'][ti], p)[fld] = v
        yield c


def shrink(case, bucket, deadline):
  import time
  cur = case
  progress = True
  while progress and time.time() < deadline:
    progress = False
    for c in _variants(cur):
      if time.time() >= deadline:
        break
      try:
        ok = any(f['bucket'] == bucket for f in replay(c))
      except Exception:
        ok = False
      if ok:
        cur, progress = c, True
        break
  return cur
