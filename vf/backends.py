"""Operator backends injected through harness.PrivateTranspiler (DESIGN 2.4)."""
import inspect
import re
import sys

from malt.operators import variables as ag_variables
from vf import harness


# ---------------------------------------------------------------------------------------------
# functional (tracing-style) backend - C02


class Functional(object):
  """Touches the enclosing function's variables only through get_state/set_state."""

  def __init__(self):
    self.stats = {'if': 0, 'while': 0, 'for': 0, 'nonempty_state': 0, 'zero_trip': 0, 'multi_trip': 0,
                  'both_branches': set()}

  def overrides(self):
    return {'if_stmt': self.if_stmt, 'while_stmt': self.while_stmt, 'for_stmt': self.for_stmt}

  def if_stmt(self, cond, body, orelse, get_state, set_state, symbol_names, nouts):
    self.stats['if'] += 1
    if symbol_names:
      self.stats['nonempty_state'] += 1
    init = get_state()
    body()
    sb = get_state()
    set_state(init)
    orelse()
    se = get_state()
    chosen = sb if cond else se
    # only the declared outputs are taken from the chosen branch; the rest is restored
    set_state(tuple(chosen[:nouts]) + tuple(init[nouts:]))
    self.stats['both_branches'].add((sys._getframe(1).f_lineno, bool(cond)))

  def while_stmt(self, test, body, get_state, set_state, symbol_names, opts):
    self.stats['while'] += 1
    if symbol_names:
      self.stats['nonempty_state'] += 1
    init = get_state()
    body()                       # traced once out of band, also for zero iterations
    set_state(init)
    state = init
    trips = 0
    while True:
      set_state(state)
      if not test():
        break
      body()
      state = get_state()
      trips += 1
    set_state(state)
    self.stats['zero_trip' if trips == 0 else 'multi_trip'] += 1

  def for_stmt(self, iter_, extra_test, body, get_state, set_state, symbol_names, opts):
    self.stats['for'] += 1
    if symbol_names:
      self.stats['nonempty_state'] += 1
    init = get_state()
    names = [n.strip() for n in opts.get('iterate_names', 'x').strip('()').split(',') if n.strip()]
    dummy = 0 if len(names) <= 1 else tuple(0 for _ in names)
    body(dummy)                  # traced once out of band with a placeholder element
    set_state(init)
    state = init
    trips = 0
    if extra_test is None or extra_test():
      for target in iter_:
        set_state(state)
        body(target)
        state = get_state()
        trips += 1
        set_state(state)
        if extra_test is not None and not extra_test():
          break
    set_state(state)
    self.stats['zero_trip' if trips == 0 else 'multi_trip'] += 1


# ---------------------------------------------------------------------------------------------
# contract monitor - C03


class ContractViolation(Exception):
  def __init__(self, clause, detail):
    Exception.__init__(self, clause)
    self.clause = clause
    self.detail = detail


class _Sentinel(object):
  __slots__ = ('i',)

  def __init__(self, i):
    self.i = i

  def __repr__(self):
    return '<sentinel %d>' % self.i


_MISSING = object()


def _is_undef(v):
  return isinstance(v, ag_variables.Undefined)


def _same(a, b):
  if a is b:
    return True
  if _is_undef(a) and _is_undef(b):
    return a.symbol_name == b.symbol_name
  return False


class Monitor(object):
  """Validates every dynamic operator invocation against the documented contract, then delegates
  to the shipped pure-Python implementation."""

  def __init__(self, expect):
    """expect: {'for': {target_text: {directive kwargs}}, 'while': {counter_name: {...}},
                'for_targets': set(target_text)}"""
    from malt.operators import control_flow as cf
    from malt.operators import conditional_expressions as ce
    from malt.operators import logical as lg
    self.cf, self.ce, self.lg = cf, ce, lg
    self.expect = expect
    self.violations = []
    self.stats = {'invocations': 0, 'state_entries>=2': 0, 'composite_entry': 0, 'directive_seen': 0,
                  'write_laws_skipped_undefined_composite': 0, 'write_laws_checked': 0, 'undefined_positions': 0}

  def overrides(self):
    return {'if_stmt': self.if_stmt, 'while_stmt': self.while_stmt, 'for_stmt': self.for_stmt,
            'if_exp': self.if_exp, 'and_': self.and_, 'or_': self.or_, 'not_': self.not_}

  def bad(self, clause, detail):
    self.violations.append((clause, detail))

  # ---- shared state-contract checks
  def _eval(self, frame, name):
    return eval(name, frame.f_globals, frame.f_locals)

  def check_state(self, kind, frame, get_state, set_state, symbol_names):
    self.stats['invocations'] += 1
    if not isinstance(symbol_names, tuple) or not all(isinstance(s, str) for s in symbol_names):
      self.bad(kind + ':symbol_names-not-a-tuple-of-str', repr(symbol_names))
      return
    for fn, nm in ((get_state, 'get_state'), (set_state, 'set_state')):
      try:
        npar = len(inspect.signature(fn).parameters)
      except (TypeError, ValueError):
        npar = None
      if npar != (0 if nm == 'get_state' else 1):
        self.bad(kind + ':%s-arity' % nm, npar)
        return
    try:
      st = get_state()
    except Exception as e:  # noqa
      self.bad(kind + ':get_state-raises', {'names': symbol_names, 'exc': repr(e)[:200]})
      return
    if not isinstance(st, tuple):
      self.bad(kind + ':get_state-not-tuple', repr(type(st)))
      return
    if len(st) != len(symbol_names):
      self.bad(kind + ':len(get_state)!=len(symbol_names)', {'names': symbol_names, 'nstate': len(st)})
      return
    if len(symbol_names) >= 2:
      self.stats['state_entries>=2'] += 1
    composite = [not re.match(r'^[A-Za-z_][A-Za-z0-9_]*$', n) for n in symbol_names]
    if any(composite):
      self.stats['composite_entry'] += 1
    # the support symbols of a composite entry must be variables that are defined here
    # (composites need all support symbols live into the statement)
    import ast as _ast
    unbound_support = set()
    for i, n in enumerate(symbol_names):
      if not composite[i]:
        continue
      try:
        roots = [x.id for x in _ast.walk(_ast.parse(n, mode='eval')) if isinstance(x, _ast.Name)]
      except SyntaxError:
        roots = []
      for rname in roots:
        val = frame.f_locals.get(rname, frame.f_globals.get(rname, _MISSING))
        if val is _MISSING or _is_undef(val):
          if _is_undef(st[i]):
            # calibration: the analysis may keep a support symbol live over a path that cannot execute (e.g. past a
            # `with` body whose exception the manager might swallow); the entry is then reported Undefined, which is
            # what the contract asks for a variable that does not exist yet
            self.stats['composite_entry_with_unbound_support_symbol_reported_undefined'] = self.stats.get('composite_entry_with_unbound_support_symbol_reported_undefined', 0) + 1
            unbound_support.add(i)
            break
          self.bad(kind + ':composite-state-entry-with-undefined-support-symbol', {'name': n, 'symbol': rname})
          return
    # position by position the same variables
    for i, n in enumerate(symbol_names):
      try:
        v = self._eval(frame, n)
        missing = False
      except NameError as e:
        if composite[i] and i in unbound_support:
          missing = True
          v = None
          if not _is_undef(st[i]):
            self.bad(kind + ':state-entry-for-unbound-name-not-Undefined', {'name': n, 'got': repr(st[i])})
            return
          continue
        elif composite[i]:
          # a composite state entry whose support symbol is not a variable here (programs never
          # read unbound variables, so this cannot come from the user program)
          self.bad(kind + ':composite-state-entry-with-unbound-support-symbol', {'name': n, 'exc': repr(e)[:120]})
          return
        missing = True
        v = None
      except (AttributeError, KeyError):
        missing = True
        v = None
      if missing:
        if not _is_undef(st[i]):
          self.bad(kind + ':state-entry-for-unbound-name-not-Undefined', {'name': n, 'got': repr(st[i])})
          return
      elif not _same(v, st[i]):
        self.bad(kind + ':state-position-denotes-other-variable', {'name': n, 'frame_value': repr(v)[:80], 'state_value': repr(st[i])[:80]})
        return
    # reading has no effect
    try:
      st2 = get_state()
      set_state(st2) if False else None
    except Exception as e:  # noqa
      self.bad(kind + ':get_state-raises', {'names': symbol_names, 'exc': repr(e)[:200]})
      return
    if len(st2) != len(st) or not all(_same(a, b) for a, b in zip(st, st2)):
      self.bad(kind + ':get_state-not-idempotent', {'names': symbol_names})
      return
    undef_pos = [i for i, v in enumerate(st) if _is_undef(v)]
    self.stats['undefined_positions'] += len(undef_pos)
    if any(composite[i] for i in undef_pos):
      # writing the placeholder back would materialise an attribute / key (calibration)
      self.stats['write_laws_skipped_undefined_composite'] += 1
      return
    self.stats['write_laws_checked'] += 1
    # write back what was read: nothing changes
    try:
      set_state(st)
      st3 = get_state()
    except Exception as e:  # noqa
      self.bad(kind + ':set_state-raises', {'names': symbol_names, 'exc': repr(e)[:200]})
      return
    if not all(_same(a, b) for a, b in zip(st, st3)):
      self.bad(kind + ':set_state(get_state())-changes-state', {'names': symbol_names})
      return
    # write then read returns what was written, and the caller-frame names denote it
    sent = tuple(_Sentinel(i) for i in range(len(st)))
    try:
      set_state(sent)
      back = get_state()
      ok = len(back) == len(sent) and all(a is b for a, b in zip(sent, back))
      frame_ok = True
      wrong = None
      for i, n in enumerate(symbol_names):
        try:
          v = self._eval(frame, n)
        except Exception as e:  # noqa
          v = e
        if v is not sent[i]:
          frame_ok = False
          wrong = n
          break
    finally:
      set_state(st)
    if not ok:
      self.bad(kind + ':write-then-read-mismatch', {'names': symbol_names, 'back': repr(back)[:120]})
      return
    if not frame_ok:
      self.bad(kind + ':set_state-does-not-write-named-variable', {'name': wrong, 'names': symbol_names})
      return
    st4 = get_state()
    if not all(_same(a, b) for a, b in zip(st, st4)):
      self.bad(kind + ':state-not-restored', {'names': symbol_names})

  def arity(self, kind, what, fn, want):
    if fn is None and want is None:
      return
    try:
      n = len(inspect.signature(fn).parameters)
    except (TypeError, ValueError):
      n = None
    if n != want:
      self.bad('%s:%s-arity' % (kind, what), {'got': n, 'want': want})

  def check_opts(self, kind, opts, key):
    if not isinstance(opts, dict):
      self.bad(kind + ':opts-not-dict', repr(opts))
      return
    extra = dict((k, v) for k, v in opts.items() if k != 'iterate_names')
    if extra:
      self.stats['directive_seen'] += 1
    want = self.expect.get(kind, {}).get(key)
    if key is None:
      self.bad(kind + ':loop-not-identifiable', repr(opts))
      return
    if want is None:
      want = {}
    if extra != want:
      f = sys._getframe(2)
      try:
        gen = '%s:%d %s' % (f.f_code.co_filename, f.f_lineno, f.f_code.co_name)
        import linecache
        gen += ' | ' + linecache.getline(f.f_code.co_filename, f.f_lineno).strip()[:300]
        orig = getattr(f.f_globals.get('__name__'), 'x', None)
        gen += ' | module=' + str(f.f_globals.get('__name__')) + ' file=' + str(f.f_globals.get('__file__'))
      except Exception as e:  # noqa
        gen = repr(e)
      self.bad(kind + ':directives-differ-from-source', {'loop': key, 'opts': repr(extra), 'source': repr(want), 'where': gen})

  # ---- operators
  def if_stmt(self, cond, body, orelse, get_state, set_state, symbol_names, nouts):
    f = sys._getframe(1)
    self.arity('if', 'body', body, 0)
    self.arity('if', 'orelse', orelse, 0)
    self.check_state('if', f, get_state, set_state, symbol_names)
    if not isinstance(nouts, int) or isinstance(nouts, bool) or not (0 <= nouts <= len(symbol_names)):
      self.bad('if:nouts-out-of-bounds', {'nouts': repr(nouts), 'n': len(symbol_names)})
    return self.cf._py_if_stmt(cond, body, orelse)

  def while_stmt(self, test, body, get_state, set_state, symbol_names, opts):
    f = sys._getframe(1)
    self.arity('while', 'test', test, 0)
    self.arity('while', 'body', body, 0)
    self.check_state('while', f, get_state, set_state, symbol_names)
    if isinstance(opts, dict) and 'iterate_names' in opts:
      self.bad('while:opts-has-iterate_names', repr(opts))
    key = None
    code = getattr(test, '__code__', None)
    if code is not None:
      cands = sorted(n for n in set(code.co_freevars) | set(code.co_names) | set(code.co_varnames) if re.match(r'^w\d+$', n))
      if len(cands) == 1:
        key = cands[0]
      elif not cands:
        key = '<no-counter>'
    if key != '<no-counter>':
      self.check_opts('while', opts, key)
    return self.cf._py_while_stmt(test, body, get_state, set_state, opts)

  def for_stmt(self, iter_, extra_test, body, get_state, set_state, symbol_names, opts):
    f = sys._getframe(1)
    self.arity('for', 'body', body, 1)
    if extra_test is not None:
      self.arity('for', 'extra_test', extra_test, 0)
    self.check_state('for', f, get_state, set_state, symbol_names)
    key = None
    if not isinstance(opts, dict) or 'iterate_names' not in opts:
      self.bad('for:opts-lacks-iterate_names', repr(opts))
    else:
      key = opts['iterate_names']
      norm = lambda s: re.sub(r'[\s()]', '', s)
      known = dict((norm(k), k) for k in self.expect.get('for_targets', ()))
      if norm(key) not in known:
        self.bad('for:iterate_names-not-a-loop-target', {'iterate_names': key, 'targets': sorted(known.values())})
        key = None
      else:
        key = known[norm(key)]
    if key is not None:
      self.check_opts('for', opts, key)
    return self.cf._py_for_stmt(iter_, extra_test, body, get_state, set_state, symbol_names, opts)

  def if_exp(self, cond, if_true, if_false, expr_repr):
    self.stats['invocations'] += 1
    self.arity('if_exp', 'if_true', if_true, 0)
    self.arity('if_exp', 'if_false', if_false, 0)
    if not isinstance(expr_repr, str):
      self.bad('if_exp:expr_repr-not-str', repr(expr_repr))
    return self.ce._py_if_exp(cond, if_true, if_false)

  def and_(self, a, b):
    self.stats['invocations'] += 1
    self.arity('and_', 'a', a, 0)
    self.arity('and_', 'b', b, 0)
    return self.lg._py_lazy_and(a(), b)

  def or_(self, a, b):
    self.stats['invocations'] += 1
    self.arity('or_', 'a', a, 0)
    self.arity('or_', 'b', b, 0)
    return self.lg._py_lazy_or(a(), b)

  def not_(self, a):
    self.stats['invocations'] += 1
    if callable(a) and getattr(a, '__name__', '') == '<lambda>':
      self.bad('not_:operand-is-a-thunk', repr(a))
    return self.lg._py_not(a)


# ---------------------------------------------------------------------------------------------
# counting spy - C04


class Counter(object):
  def __init__(self):
    self.counts = {}

  def overrides(self):
    real = harness.real_ag()
    out = {}
    for n in ('if_stmt', 'while_stmt', 'for_stmt', 'if_exp', 'and_', 'or_', 'not_', 'converted_call'):
      r = getattr(real, n)

      def w(*a, __r=r, __n=n, **k):
        self.counts[__n] = self.counts.get(__n, 0) + 1
        return __r(*a, **k)
      out[n] = w
    return out
