"""C09 - converted functions keep the original calling interface and environment.

A case is a generated module (rendered from a JSON spec) holding one or more conversion targets
(module function / nested function / lambda / bound method / functions created in a loop that share
one code object), their sibling closures (getter, setter, deleter per closed-over variable) and a
script of operations (calls with drawn argument bindings - legal and illegal -, rebinding through
siblings, rebinding of module globals).

Oracles (every clause has its own bucket prefix):
  noreeval   conversion / instantiation / calls never re-run a default expression or a decorator
             (default and decorator expressions are tracer calls appending to LOG / DLOG)
  sig        same parameter names, kinds, order, default presence, inspect.signature
  defaults   __defaults__[i] / __kwdefaults__[k] are the original objects
  globals    __globals__ is the original module dictionary
  cells      every original free variable is a free variable of the converted function and its
             cell is the original cell (matched by name; extra cells such as ag__ are fine)
  method     a converted bound method takes the instance first (classmethod: the class)
  routes     a script call on the converted side reaches the converted function either directly (the function returned
             by to_graph / the private transpiler, instance passed first) or by dynamic conversion of the ORIGINAL
             callable: api.convert(...)(target)(...), api.converted_call(target, args, kwargs), a call made from inside
             converted code (drive(fn_, a_, k_) / drive_attr(o_, ...): o_.m(...)), optionally with the callable wrapped in
             a functools.partial, taken unbound from the class (instance passed explicitly) or being the instance itself
             (callable object whose __call__ is the target method). All of them must behave like target(*args, **kwargs).
             Receivers of bound methods come in flavours that answer bool() / == / hash() / getattr unusually (falsy by
             __len__ / __bool__ / being an empty list subclass, bool() raising, == raising or returning a list,
             unhashable, catch-all __getattr__; for classmethods the class is made falsy through its metaclass) and the
             script can flip the truth value between calls. With config.strict the mixed run sets
             AUTOGRAPH_STRICT_CONVERSION=1 so that errors inside the call wrapper are not hidden by the silent fallback.
             Calls made from inside converted code draw the SHAPE of the call expression (spec['sites'], one generated driver
             drv<i>_ per call): any sequence of explicit arguments and starred iterables (tuple, list, one-shot iterator,
             generator, deque, str, bare __iter__ object; also a lone or an empty star), any sequence of explicit keywords
             and double-starred mappings (dict, OrderedDict, mappingproxy, bare keys/__getitem__ object), callee a function,
             bound method, functools.partial (also of a callable object), callable object or an attribute call o_.m(...).
  environment (part of call / state)  the body of a def / method target may bind LOCALS (or rebind parameters) named like a
             module global (GX, GY), like nothing else (lv_) or like an uncaptured local of the enclosing function, in
             straight-line code or inside if / for / while / try, first bound before or inside the statement; a def / class
             nested in the target may declare the same name global (write, read, read-modify-write, two levels deep, class
             body, never called), nonlocal, or bind a local of its own, and is called before or after the statement. The
             module dictionary entries of all such names are part of the observed state: the target's local must stay a
             local, the nested helper must reach the module variable.
  call / writethrough / state   the script is run twice: on environment A only through the
             original functions (reference), on an identically built environment B where drawn
             operations go through the converted function (and converted sibling setters). Results
             (value or exception type) and the state observed after every step (all cells through
             the sibling getters, module globals, the default objects) must agree.
"""
import functools
import inspect
import itertools
import os
import sys
import time

import hypothesis.strategies as st

from malt.impl import api
from vf import common
from vf import harness

ID = 'C09'
LEVEL = 'exploration'
TECHNIQUE = ('property-based testing with Hypothesis: generated signatures x closure shapes x entity kinds x conversion entry '
             'points x call bindings; attribute oracles (signature, default identity, globals identity, cell identity by name), '
             'tracer oracle (default / decorator expressions log when evaluated) and a differential script oracle (same operation '
             'sequence on an all-original environment vs. an environment where drawn steps use the converted functions)')
RULE = ('a case = one generated module + conversion configuration + script. Targets: module-level def, nested def, lambda '
        '(module / nested), bound method (module / nested class, with super(); instance method or classmethod; receiver flavours '
        'plain / falsy-or-truthy via __len__, __bool__, list subclass / bool() raises / == raises / == returns list / unhashable / '
        'catch-all __getattr__, truth value toggled by the script; optionally a callable object), 1-3 closures sharing one code '
        'object (factory called repeatedly or def inside a for loop). Calls on the converted side go through one of the routes '
        'direct / convert() wrapper / converted_call / call from inside converted code (callable passed in, attribute call, '
        'callable object), optionally through functools.partial or the unbound function; the call expression inside converted '
        'code has a drawn shape: explicit arguments / starred iterables (tuple, list, iterator, generator, deque, str, bare '
        'iterable; lone, empty, several) x explicit keywords / double-starred mappings (dict, OrderedDict, mappingproxy, bare '
        'mapping). Bodies of def / method targets may bind locals or rebind parameters that shadow a module global / an '
        'uncaptured enclosing local / nothing, in straight-line code or control flow, with a nested def / class that declares '
        'the name global or nonlocal or binds its own local. Signatures: 0-2 (thorough 0-3) positional-only, positional-or-keyword, '
        'keyword-only parameters, *args, **kwargs, defaults of kinds int/falsy/None/list/dict/object/enclosing-local, '
        'annotations, __defaults__/__kwdefaults__ replaced after definition. Closures: 0-4 free variables on 1-2 nesting '
        'levels with uses read / nested-only (called or never called) / rebinding (straight-line, if, if-else, for, while, try; '
        'write-only or read-modify-write), unassigned cells at conversion time, uncaptured enclosing locals; decorators '
        '(registering, wrapping, with argument). One evaluation = one executed script step or one static clause group per '
        'conversion. Non-trivial = the target has >= 2 parameter kinds and >= 1 free variable (co_freevars of the original), '
        'conversion succeeded and the script made >= 1 call through the converted function; distinct by SHA1 of (source, plan).')
ASSUMPTIONS = [
    'argument / cell values are small ints, short strings and lists; results compared by repr, exceptions by type (NameError family collapsed)',
    'TypeError messages are not compared (the converted function is named ag__<name>)',
    'annotations are restricted to expressions resolvable in module globals without side effects (annotations are outside the property text)',
    'shapes of listed known findings are excluded by construction (see coverage.classes excluded:*)',
    'one lambda per source line (source recovery of ambiguous lambdas is C15)',
    'dynamic routes compare the outcome of the call (value / exception type) and all observable state with the plain call of the '
    'original; whether the callee was really converted (and not run as-is by policy) is C13',
]
LEVEL_TEXT = ('Randomised exploration of signature x closure x entity-kind x binding space; every explored case is checked against '
              'exact attribute oracles and an executed reference, so any reported divergence is a concrete counterexample. No '
              'claim beyond the cases counted.')
LEVEL_NOTE = ('Trusted: CPython argument binding and closure semantics as the reference, the renderer producing the intended module. '
              'Out of reach: > 3 parameters per kind, > 4 free variables, to_graph of classes / callable objects (callable objects '
              'are only reached through dynamic conversion), staticmethods, functions built with types.FunctionType or code.replace.')

_KEEP = []

# exclusion flags (known findings): name -> description
# F24 was repaired in /repo (fix: commit 3c845d4); the shape is generated again
EXCL = ()


def budget(tier):
  if tier == 'thorough':
    return {'cases': 48000, 'maxk': 3, 'shrink_s': 60, 'wall_cap': 1500}
  return {'cases': 2000, 'maxk': 2, 'shrink_s': 20, 'wall_cap': 600}


# --------------------------------------------------------------------------------------------------
# rendering a spec into a module

PRELUDE = '''\
LOG = []
DLOG = []
G0 = 100
GW = 0
GX = 300
GY = 400


class S(object):

  def __repr__(self):
    return 'S'


def t(tag, v):
  LOG.append(tag)
  return v


def reg(fn):
  DLOG.append('reg:' + fn.__name__)
  return fn


def regarg(x):
  def d(fn):
    DLOG.append('regarg:' + fn.__name__)
    return fn
  return d


def wrap(fn):
  DLOG.append('wrap:' + fn.__name__)
  def w(*a, **k):
    return ('wrapped', fn(*a, **k))
  w.__wrapped__ = fn
  return w


def raw(fn):
  while hasattr(fn, '__wrapped__'):
    fn = fn.__wrapped__
  return fn


class Base(object):

  def tag(self):
    return 'base'

  @classmethod
  def ctag(cls):
    return 'cbase'


def drive(fn_, a_, k_):
  return fn_(*a_, **k_)


def drive_attr(o_, a_, k_):
  return o_.m(*a_, **k_)


def merge(envs):
  out = {'targets': [], 'refs': [], 'selfs': [], 'peek': {}, 'poke': {}, 'drop': {}}
  for ci, e in enumerate(envs):
    out['targets'] += e['targets']
    out['refs'] += e['refs']
    out['selfs'] += e['selfs']
    for kind in ('peek', 'poke', 'drop'):
      for k, v in e[kind].items():
        out[kind]['%s@%d' % (k, ci)] = v
  return out

'''

DEFAULT_EXPR = {
    'int': '3', 'zero': '0', 'none': 'None', 'list': '[]', 'list1': '[1]', 'dict': '{}', 'obj': 'S()',
    'local': '[e_]', 'str': "'s'", 'tuple0': '()',
}
MUTABLE = {'list': 'list', 'list1': 'list', 'dict': 'dict', 'local': 'list'}


# receiver flavours of bound methods: how the instance (for classmethods: the class, through its metaclass) answers
# the questions a careless implementation may ask it (truth value, equality, hash, attribute probing)
INST_DUNDERS = {
    'plain': [],
    'len': ['def __len__(self):', '  return 1 if self.on else 0'],
    'bool': ['def __bool__(self):', '  return self.on'],
    'bool_raises': ['def __bool__(self):', "  raise ValueError('truth value is ambiguous')"],
    'eq_raises': ['def __eq__(self, other_):', "  raise ValueError('comparison is ambiguous')", '__hash__ = object.__hash__'],
    'eq_list': ['def __eq__(self, other_):', '  return [self is other_]', 'def __ne__(self, other_):', '  return []',
                '__hash__ = object.__hash__'],
    'unhashable': ['def __eq__(self, other_):', '  return self is other_', '__hash__ = None'],
    'list_sub': [],   # class C(Base, list): empty container = falsy, == compares contents, unhashable
    'getattr_any': ['def __getattr__(self, n_):', "  if n_.startswith('__'):", '    raise AttributeError(n_)', '  return 0'],
}
INST_CM = ['plain', 'len', 'bool', 'bool_raises']   # flavours applicable to a class (through a metaclass)


def falsy_receiver(spec):
  """True / False: truth value of the receiver at definition time; None: asking raises."""
  inst = spec.get('inst', 'plain')
  if inst == 'bool_raises':
    return None
  if inst in ('len', 'bool', 'list_sub'):
    return not spec.get('inst_on', True)
  return False


def is_method(kind):
  return kind.endswith('method')


def recv_name(spec):
  return 'cls' if spec.get('meth') == 'classmethod' else 'self'


def is_lambda(kind):
  return kind.endswith('lambda')


def is_nested(kind):
  return kind.startswith('nest')


def _param_src(p, nested):
  s = p['name']
  if p.get('anno'):
    s += ': ' + p['anno']
  if p.get('default'):
    d = p['default']
    if d == 'local' and not nested:
      d = 'list'
    s += ('=' if not p.get('anno') else ' = ') + "t('D:%s', %s)" % (p['name'], DEFAULT_EXPR[d])
  return s


def sig_src(spec, with_self=False):
  nested = is_nested(spec['kind'])
  ps = spec['params']
  out = []
  if with_self:
    out.append(recv_name(spec))
  po = [p for p in ps if p['kind'] == 'po']
  pk = [p for p in ps if p['kind'] == 'pk']
  va = [p for p in ps if p['kind'] == 'va']
  ko = [p for p in ps if p['kind'] == 'ko']
  vk = [p for p in ps if p['kind'] == 'vk']
  # positional defaults must form a suffix
  seen_default = False
  for p in po + pk:
    if p.get('default'):
      seen_default = True
    elif seen_default:
      p = dict(p, default='int')
    out.append(_param_src(p, nested))
    if po and p['name'] == po[-1]['name']:
      out.append('/')
  if with_self and po:
    # self must be positional-only too when positional-only params follow: fine, '/' already placed
    pass
  if va:
    out.append('*' + va[0]['name'])
  elif ko:
    out.append('*')
  for p in ko:
    out.append(_param_src(p, nested))
  if vk:
    out.append('**' + vk[0]['name'])
  return ', '.join(out)


def _names(spec, kinds):
  return [p['name'] for p in spec['params'] if p['kind'] in kinds]


def _cond_name(spec):
  n = _names(spec, ('po', 'pk', 'ko'))
  return n[0] if n else 'G0'


def body_lines(spec):
  """Statements of a def / method body (without the def line), as a list of lines indented 0."""
  kind = spec['kind']
  fv = {v['name'] for v in spec.get('free', [])}
  pn = {p['name']: p for p in spec['params']}
  c0 = _cond_name(spec)
  lines = []
  stmts = [s for s in spec.get('stmts', [])
           if (s['op'] not in ('rebind', 'nested') or s['var'] in fv) and (s['op'] != 'mutdef' or s['param'] in pn)
           and (s['op'] != 'local' or s['name'] not in fv)]
  nl = sorted({s['var'] for s in stmts if s['op'] == 'rebind'})
  if nl:
    lines.append('nonlocal ' + ', '.join(nl))
  if any(s['op'] == 'grebind' for s in stmts):
    lines.append('global GW')
  extra_results = []
  for i, s in enumerate(stmts):
    op = s['op']
    if op in ('rebind', 'grebind'):
      v = s['var'] if op == 'rebind' else 'GW'
      wo = s['mode'] == 'wo'
      ctx = s['ctx']
      if ctx == 'plain':
        lines.append('%s = %s' % (v, c0 if wo else v + ' + 1'))
      elif ctx == 'if':
        lines += ['if %s:' % c0, '  %s = %s' % (v, c0 if wo else v + ' + 1')]
      elif ctx == 'ifelse':
        lines += ['if %s:' % c0, '  %s = %s' % (v, c0 if wo else v + ' + 1'), 'else:',
                  '  %s = %s' % (v, '11' if wo else v + ' + 2')]
      elif ctx == 'for':
        lines += ['for it_ in (%s, 12):' % c0, '  %s = %s' % (v, 'it_' if wo else v + ' + 1')]
      elif ctx == 'while':
        lines += ['n_ = 2', 'while n_ > 0:', '  %s = %s' % (v, 'n_ + 40' if wo else v + ' + n_'), '  n_ = n_ - 1']
      elif ctx == 'try':
        lines += ['try:', '  %s = %s' % (v, c0 if wo else v + ' + 1'), 'finally:', '  pass']
    elif op == 'mutdef':
      p = s['param']
      m = MUTABLE.get(pn[p].get('default'))
      if m == 'list':
        lines += ['if isinstance(%s, list):' % p, '  %s.append(len(%s))' % (p, p)]
      elif m == 'dict':
        lines += ['if isinstance(%s, dict):' % p, '  %s[len(%s)] = 1' % (p, p)]
    elif op == 'nested':
      v = s['var']
      if s['form'] == 'def':
        lines += ['def in%d_():' % i, '  return %s' % v, 'r%d_ = in%d_()' % (i, i)]
        extra_results.append('r%d_' % i)
      elif s['form'] == 'lambda':
        lines += ['in%d_ = lambda: %s' % (i, v), 'r%d_ = in%d_()' % (i, i)]
        extra_results.append('r%d_' % i)
      else:
        lines += ['def in%d_():' % i, '  return %s' % v]
    elif op == 'local':
      lines += local_lines(s, i, pn, c0, extra_results)
  lines.append('return ' + result_expr(spec, extra_results))
  return lines


# a LOCAL variable of the target (or one of its parameters) that has the name of a module global (GX, GY), of nothing
# else (lv_), or of an enclosing function's local that the target does not capture; optionally a def / class nested in
# the target declares the same name `global` (it means the module variable there), `nonlocal` (the target's local
# becomes a cell) or binds a local of its own. The target rebinds its local in straight-line code or inside control
# flow: neither the module dictionary nor the enclosing cell may be touched, and the update must not get lost.
LOCAL_DECLS = ['none', 'gdef-w', 'gdef-w', 'gdef-r', 'gdef-rmw', 'gdef2', 'gclass', 'gdef-uncalled', 'nonlocal', 'ownlocal']


def local_lines(s, i, pn, c0, extra_results):
  x, ctx, decl = s['name'], s['ctx'], s.get('decl', 'none')
  is_param = x in pn
  wo = s['mode'] == 'wo' or not (is_param or s.get('init', True))
  rmw = ('(%s, 1)' % x) if is_param else (x + ' + 1')
  rmw2 = ('(%s, 2)' % x) if is_param else (x + ' + 2')
  h = 'h%d_' % i
  helper, call = [], []
  k = 900 + i
  if decl == 'gdef-w' or decl == 'gdef-uncalled':
    helper = ['def %s():' % h, '  global %s' % x, '  %s = %d' % (x, k), '  return %d' % i]
  elif decl == 'gdef-r':
    helper = ['def %s():' % h, '  global %s' % x, '  return %s' % x]
  elif decl == 'gdef-rmw':
    helper = ['def %s():' % h, '  global %s' % x, '  %s = %s + 1' % (x, x), '  return %s' % x]
  elif decl == 'gdef2':
    helper = ['def %s():' % h, '  def g_():', '    global %s' % x, '    %s = %d' % (x, k), '  g_()', '  return %d' % i]
  elif decl == 'gclass':
    helper = ['class K%d_(object):' % i, '  global %s' % x, '  %s = %d' % (x, k)]
  elif decl == 'nonlocal':
    helper = ['def %s():' % h, '  nonlocal %s' % x, '  %s = %d' % (x, k), '  return %d' % i]
  elif decl == 'ownlocal':
    helper = ['def %s():' % h, '  %s = %d' % (x, k), '  return %s' % x]
  if helper and decl not in ('gclass', 'gdef-uncalled'):
    call = ['r%d_ = %s()' % (i, h)]
    extra_results.append('r%d_' % i)
  if ctx == 'plain':
    flow = ['%s = %s' % (x, c0 if wo else rmw)]
  elif ctx == 'if':
    flow = ['if %s:' % c0, '  %s = %s' % (x, c0 if wo else rmw)]
  elif ctx == 'ifelse':
    flow = ['if %s:' % c0, '  %s = %s' % (x, c0 if wo else rmw), 'else:', '  %s = %s' % (x, '11' if wo else rmw2)]
  elif ctx == 'for':
    flow = ['for it_ in (%s, 12):' % c0, '  %s = %s' % (x, 'it_' if wo else rmw)]
  elif ctx == 'while':
    flow = ['n_ = 2', 'while n_ > 0:', '  %s = %s' % (x, 'n_ + 40' if wo else rmw), '  n_ = n_ - 1']
  else:
    flow = ['try:', '  %s = %s' % (x, c0 if wo else rmw), 'finally:', '  pass']
  out = []
  if not is_param and s.get('init', True):
    out.append('%s = %d' % (x, 60 + i))
  order = s.get('order', 'hcf')   # h = helper definition, c = its call, f = the control-flow statement
  for ch in order:
    out += {'h': helper, 'c': call, 'f': flow}[ch]
  if not is_param:
    extra_results.append(x)
  return out


def result_expr(spec, extra=()):
  items = []
  if is_method(spec['kind']):
    items.append(recv_name(spec) + '.base')
    if spec.get('super'):
      items.append('super().ctag()' if spec.get('meth') == 'classmethod' else 'super().tag()')
  for p in spec['params']:
    items.append(p['name'])
  for v in spec.get('free', []):
    if 'read' in v['uses']:
      items.append(v['name'])
    if is_lambda(spec['kind']) and 'nested' in v['uses']:
      # nested-only use inside a lambda: a generator expression (own scope); a second lambda on the same
      # line is outside the documented domain of lambda source recovery (limitations.md, C15)
      items.append('next(%s for z_ in (0,))' % v['name'])
  if spec.get('inloop') and spec.get('read_loopvar'):
    items.append('i_')
  items += list(extra)
  if spec.get('gread'):
    items.append('G0')
  if spec.get('gwread'):
    items.append('GW')
  return '(' + ''.join(x + ', ' for x in items) + ')'


def _ind(lines, n):
  return [(' ' * n + l) if l else l for l in lines]


def target_def_lines(spec):
  """Lines (indent 0) defining the target: leaves `f` (function) or class C + obj."""
  kind = spec['kind']
  out = []
  if is_lambda(kind):
    out.append('f = lambda %s: %s' % (sig_src(spec), result_expr(spec)))
    return out
  ret = (' -> ' + spec['ret_anno']) if spec.get('ret_anno') else ''
  if is_method(kind):
    inst, on = spec.get('inst', 'plain'), bool(spec.get('inst_on', True))
    cm = spec.get('meth') == 'classmethod'
    dunders = _ind(INST_DUNDERS[inst], 2)
    if cm and inst != 'plain':
      # the receiver of a classmethod is the class: its truth value comes from the metaclass
      out += ['class Meta(type):', ''] + dunders + ['']
      out += ['class C(Base, metaclass=Meta):', '']
    elif inst == 'list_sub':
      out += ['class C(Base, list):', '']
    else:
      out += ['class C(Base):', '']
    if cm:
      out += ['  base = 7', '  on = %r' % on, '']
    else:
      out += ['  def __init__(self):', '    self.base = 7', '    self.on = %r' % on]
      if inst == 'list_sub':
        out += ['    if self.on:', '      self.append(1)']
      out.append('')
      if dunders:
        out += dunders + ['']
    if cm:
      out.append('  @classmethod')
    out.append('  def m(%s)%s:' % (sig_src(spec, with_self=True), ret))
    out += _ind(body_lines(spec), 4)
    out.append('')
    if spec.get('callable') and not cm:
      # callable object: calling the instance runs the target method
      out += ['  __call__ = m', '']
    return out
  for d in spec.get('deco', []):
    out.append('@' + {'reg': 'reg', 'wrap': 'wrap', 'regarg': "regarg(t('DA', 3))"}[d])
  out.append('def f(%s)%s:' % (sig_src(spec), ret))
  out += _ind(body_lines(spec), 2)
  return out


def post_lines(spec, fexpr):
  """Replacement of __defaults__ / __kwdefaults__ after definition."""
  out = []
  post = spec.get('post') or {}
  d = post.get('defaults')
  npos = len(_names(spec, ('po', 'pk')))
  if d is not None:
    if d == 'none':
      out.append('%s.__defaults__ = None' % fexpr)
    elif d == 'empty':
      out.append('%s.__defaults__ = ()' % fexpr)
    else:
      n = max(0, min(int(d), npos))
      if n:
        out.append("%s.__defaults__ = tuple(t('R%%d' %% j_, [j_]) for j_ in range(%d))" % (fexpr, n))
  k = post.get('kwdefaults')
  ko = _names(spec, ('ko',))
  if k is not None:
    if k == 'none':
      out.append('%s.__kwdefaults__ = None' % fexpr)
    else:
      ks = [n for n in k if n in ko]
      out.append('%s.__kwdefaults__ = {%s}' % (fexpr, ', '.join("'%s': t('RK:%s', ['%s'])" % (n, n, n) for n in ks)))
  return out


def render(spec):
  kind = spec['kind']
  nested = is_nested(kind)
  free = spec.get('free', []) if nested else []
  L = [PRELUDE]
  tdef = target_def_lines(spec)
  inloop = spec.get('inloop', 0) if (nested and not is_method(kind)) else 0
  copies = max(1, spec.get('copies', 1)) if nested else 1
  lvl2 = [v for v in free if v.get('level') == 2]
  lvl1 = [v for v in free if v.get('level') != 2]

  if not nested:
    L += tdef
    L.append('')
  mk = []
  if nested:
    for i, v in enumerate(lvl1):
      if v.get('assigned', True) and not v.get('late'):
        mk.append('%s = e_ * 100 + %d' % (v['name'], i + 1))
    for i, n in enumerate(spec.get('uncaptured', [])):
      mk.append('%s = %d' % (n, 70 + i))
    for v in lvl1:
      if not v.get('assigned', True):
        mk += ['if 0:', '  %s = 0' % v['name']]
  sib = []
  for v in free:
    n = v['name']
    sib += ['def peek_%s():' % n, '  return %s' % n,
            'def poke_%s(val_):' % n, '  nonlocal %s' % n, '  %s = val_' % n,
            'def drop_%s():' % n, '  nonlocal %s' % n, '  del %s' % n]
  if nested and spec.get('sib_first'):
    mk += sib
  if nested:
    if inloop:
      mk += ['fs = []', 'for i_ in range(%d):' % inloop] + _ind(tdef + ['fs.append(f)'], 2)
    else:
      mk += tdef
  if nested and not spec.get('sib_first'):
    mk += sib
  if nested:
    for i, v in enumerate(lvl1):
      if v.get('assigned', True) and v.get('late'):
        mk.append('%s = e_ * 100 + %d' % (v['name'], i + 1))
  # targets
  if is_method(kind):
    if spec.get('meth') == 'classmethod':
      mk += post_lines(spec, "C.__dict__['m'].__func__")
      mk += ["targets, refs, selfs = [C.m], [C.__dict__['m'].__func__], [C]"]
    else:
      mk += ['obj = C()']
      mk += post_lines(spec, 'C.m')
      mk += ["targets, refs, selfs = [obj.m], [C.m], [obj]"]
  elif inloop:
    mk += ['for f in fs:'] + _ind(post_lines(spec, 'raw(f)') or ['pass'], 2)
    mk += ['targets = [raw(f) for f in fs]', 'refs = list(targets)', 'selfs = [None] * len(fs)']
  else:
    mk += post_lines(spec, 'raw(f)')
    mk += ['targets, refs, selfs = [raw(f)], [raw(f)], [None]']
  mk.append("return {'targets': targets, 'refs': refs, 'selfs': selfs, 'peek': {%s}, 'poke': {%s}, 'drop': {%s}}" % (
      ', '.join("'%s': peek_%s" % (v['name'], v['name']) for v in free),
      ', '.join("'%s': poke_%s" % (v['name'], v['name']) for v in free),
      ', '.join("'%s': drop_%s" % (v['name'], v['name']) for v in free)))
  if lvl2:
    L.append('def outer(o_):')
    for i, v in enumerate(lvl2):
      if v.get('assigned', True):
        L.append('  %s = o_ * 100 + %d' % (v['name'], 50 + i))
      else:
        L += ['  if 0:', '    %s = 0' % v['name']]
    L.append('  def make(e_):')
    L += _ind(mk, 4)
    L.append('  return make(o_)')
    entry = 'outer'
  else:
    L.append('def make(e_):')
    L += _ind(mk, 2)
    entry = 'make'
  L += ['', '', 'def build():', '  return merge([%s(c_) for c_ in range(%d)])' % (entry, copies), '']
  for idx, site in enumerate(spec.get('sites', [])):
    L += ['', ''] + site_lines(idx, site)
  if spec.get('sites'):
    L.append('')
  return '\n'.join(L)


# --------------------------------------------------------------------------------------------------
# call sites inside converted code (routes inner / inner_attr / inner_obj)
#
# A site is the shape of one call expression in a driver function that is converted (recursively) and then calls the
# ORIGINAL callable: positional part = sequence of explicit arguments and starred iterables, keyword part = sequence of
# explicit keywords and double-starred mappings,
#     drv3_(fn_, e0_, s1_, v0_, m1_):  return fn_(e0_, *s1_, k=v0_, **m1_)
# The starred value is a tuple, list, one-shot iterator, generator, deque, str or a bare iterable (only __iter__); the
# mapping a dict, OrderedDict, mappingproxy or a bare mapping (only keys / __getitem__). Whatever the shape, the call must
# bind like the plain call target(*pos, **kw) of the original.

STAR_FLAVOURS = ['tuple', 'list', 'iter', 'gen', 'deque', 'custom', 'str']
MAP_FLAVOURS = ['dict', 'ordered', 'proxy', 'custom']


class BareIterable(object):

  def __init__(self, xs):
    self._xs = list(xs)

  def __iter__(self):
    return iter(self._xs)


class BareMapping(object):

  def __init__(self, d):
    self._d = dict(d)

  def keys(self):
    return list(self._d)

  def __getitem__(self, k):
    return self._d[k]


def site_lines(idx, site):
  params, args = ['fn_'], []
  for j, el in enumerate(site['pos']):
    if el[0] == 'e':
      params.append('e%d_' % j)
      args.append('e%d_' % j)
    else:
      params.append('s%d_' % j)
      args.append('*s%d_' % j)
  for j, el in enumerate(site['kw']):
    if el[0] == 'k':
      params.append('v%d_' % j)
      args.append('%s=v%d_' % (el[1], j))
    else:
      params.append('m%d_' % j)
      args.append('**m%d_' % j)
  callee = 'fn_.m' if site.get('callee') == 'attr' else 'fn_'
  return ['def drv%d_(%s):' % (idx, ', '.join(params)), '  return %s(%s)' % (callee, ', '.join(args))]


def site_fits(site, pos, kw):
  """The site was drawn for one argument list; a shrunk / edited script may no longer match it."""
  n = sum(1 if el[0] == 'e' else el[2] for el in site['pos'])
  names = []
  for el in site['kw']:
    names += [el[1]] if el[0] == 'k' else list(el[2])
  return n == len(pos) and names == list(kw)


def _star_value(flavour, xs):
  import collections
  xs = list(xs)
  if flavour == 'str' and not all(isinstance(x, str) and len(x) == 1 for x in xs):
    flavour = 'list'
  if flavour == 'tuple':
    return tuple(xs)
  if flavour == 'list':
    return xs
  if flavour == 'iter':
    return iter(xs)
  if flavour == 'gen':
    return (x for x in xs)
  if flavour == 'deque':
    return collections.deque(xs)
  if flavour == 'str':
    return ''.join(xs)
  return BareIterable(xs)


def _map_value(flavour, items):
  import collections
  import types
  d = dict(items)
  if flavour == 'ordered':
    return collections.OrderedDict(items)
  if flavour == 'proxy':
    return types.MappingProxyType(d)
  if flavour == 'custom':
    return BareMapping(d)
  return d


def site_args(site, pos, kw):
  """Arguments of the driver (after fn_) for this argument list; iterators are created afresh."""
  out, i = [], 0
  for el in site['pos']:
    if el[0] == 'e':
      out.append(pos[i])
      i += 1
    else:
      out.append(_star_value(el[1], pos[i:i + el[2]]))
      i += el[2]
  for el in site['kw']:
    if el[0] == 'k':
      out.append(kw[el[1]])
    else:
      out.append(_map_value(el[1], [(n, kw[n]) for n in el[2]]))
  return out


def site_labels(site, pos):
  """Class labels of one executed site."""
  out = []
  stars = [el for el in site['pos'] if el[0] == 's']
  expl = [el for el in site['pos'] if el[0] == 'e']
  for el in stars:
    fl = el[1]
    if fl == 'str':
      i = sum(1 if e[0] == 'e' else e[2] for e in site['pos'][:site['pos'].index(el)])
      if not all(isinstance(x, str) and len(x) == 1 for x in pos[i:i + el[2]]):
        fl = 'list'
    out.append('site:star=' + fl)
  lone = len(stars) == 1 and not expl
  if lone:
    out.append('site:lone-star')
    if 'site:star=tuple' not in out:
      out.append('site:lone-star-not-a-tuple')
  if len(stars) > 1:
    out.append('site:several-stars')
  if stars and expl:
    out.append('site:explicit-and-star-mixed')
  if not site['pos']:
    out.append('site:no-positional-part')
  maps = [el for el in site['kw'] if el[0] == 'm']
  for el in maps:
    out.append('site:map=' + el[1])
  if any(el[0] == 'k' for el in site['kw']):
    out.append('site:explicit-keywords')
    if maps:
      out.append('site:explicit-keywords-and-map-mixed')
  if len(maps) > 1:
    out.append('site:several-maps')
  if not site['kw']:
    out.append('site:no-keyword-part')
  return out


@st.composite
def sites(draw, npos, kwnames, callee):
  mode = draw(st.sampled_from(['classic', 'lone', 'lone', 'lone', 'mixed', 'mixed', 'mixed', 'mixed']))
  if mode == 'classic':
    return {'callee': callee, 'pos': [['s', 'tuple', npos]], 'kw': [['m', 'dict', list(kwnames)]]}
  pos, kw = [], []
  if mode == 'lone':
    pos.append(['s', draw(st.sampled_from(STAR_FLAVOURS + ['list', 'gen'])), npos])
  else:
    left = npos
    while left > 0 or (len(pos) < 4 and draw(st.integers(0, 3)) == 0):
      if len(pos) >= 5:
        pos.append(['s', draw(st.sampled_from(STAR_FLAVOURS)), left])
        left = 0
      elif left > 0 and draw(st.booleans()):
        pos.append(['e'])
        left -= 1
      else:
        n = draw(st.integers(0, left))
        pos.append(['s', draw(st.sampled_from(STAR_FLAVOURS)), n])
        left -= n
  names = list(kwnames)
  while names or (len(kw) < 2 and draw(st.integers(0, 3)) == 0):
    if names and draw(st.booleans()):
      kw.append(['k', names.pop(0)])
    else:
      n = len(names) if len(kw) >= 4 else draw(st.integers(0, len(names)))
      kw.append(['m', draw(st.sampled_from(MAP_FLAVOURS + ['dict'])), names[:n]])
      names = names[n:]
  return {'callee': callee, 'pos': pos, 'kw': kw}


def dynamic_shape(step, has_recv):
  """(number of positional arguments, keyword names) that reach the call expression of a dynamic route: what
  _dynamic_call computes from the step (instance prepended for an unbound function, arguments frozen in a partial)."""
  route = step['route']
  npos, names = len(step['bind']['pos']), [k for k, _ in step['bind']['kw']]
  if route not in ('convert_obj', 'inner_obj') and step.get('unbound') and has_recv and route != 'inner_attr':
    npos += 1
  part = step.get('partial')
  if part and route != 'inner_attr':
    npos -= min(part['npos'], npos)
    if part['kw']:
      names = []
  return npos, names


# --------------------------------------------------------------------------------------------------
# generator

VALS = st.sampled_from([1, 2, 3, 7, 5, 9, 0, 'x', '', [1], 4, 6, 8])
PO_NAMES = ['p', 'q', 'o']
PK_NAMES = ['a', 'c', 'b']
KO_NAMES = ['k', 'j', 'key']
FREE_NAMES = ['aa', 'zz', 'm', 'v', 'ab', 'ah', 'x1', 'u', 'ag', 'b2']
DEF_KINDS = ['int', 'zero', 'none', 'list', 'list1', 'dict', 'obj', 'local', 'str', 'tuple0']
ANNOS = [None, None, None, None, 'int', "'str'", 'S']
CTXS = ['plain', 'if', 'ifelse', 'for', 'while', 'try']
# module-dictionary entries observed after every script step: the real globals and every name a target may use for a local
# or a parameter (a converted function that binds one of its locals in the module dictionary creates such an entry)
WATCHED_GLOBALS = ['G0', 'GW', 'GX', 'GY', 'lv_'] + PO_NAMES + PK_NAMES + KO_NAMES + ['args', 'rest', 'kw', 'opts'] + FREE_NAMES


@st.composite
def specs(draw, maxk=2):
  kind = draw(st.sampled_from(['nest_def'] * 8 + ['nest_lambda'] * 3 + ['nest_method'] * 4 +
                              ['mod_def'] * 3 + ['mod_lambda'] * 1 + ['mod_method'] * 3))
  nested, lam, meth = is_nested(kind), is_lambda(kind), is_method(kind)
  spec = {'kind': kind, 'excluded': []}
  # ---- parameters
  params = []
  npo = draw(st.integers(0, maxk))
  npk = draw(st.integers(0, maxk))
  nko = draw(st.integers(0, maxk))
  po = draw(st.permutations(PO_NAMES))[:npo]
  pk = draw(st.permutations(PK_NAMES))[:npk]
  ko = draw(st.permutations(KO_NAMES))[:nko]
  npos = npo + npk
  ndef = draw(st.integers(0, npos))
  for i, n in enumerate(list(po) + list(pk)):
    p = {'name': n, 'kind': 'po' if i < npo else 'pk'}
    if i >= npos - ndef:
      p['default'] = draw(st.sampled_from(DEF_KINDS))
    if not lam:
      a = draw(st.sampled_from(ANNOS))
      if a:
        p['anno'] = a
    params.append(p)
  if draw(st.booleans()):
    params.append({'name': draw(st.sampled_from(['args', 'rest'])), 'kind': 'va'})
  for n in ko:
    p = {'name': n, 'kind': 'ko'}
    if draw(st.booleans()):
      p['default'] = draw(st.sampled_from(DEF_KINDS))
    params.append(p)
  if draw(st.booleans()):
    params.append({'name': draw(st.sampled_from(['kw', 'opts'])), 'kind': 'vk'})
  spec['params'] = params
  if not lam:
    ra = draw(st.sampled_from(ANNOS))
    if ra:
      spec['ret_anno'] = ra
  # ---- replacement of defaults after definition
  post = {}
  src_has_def = ndef > 0
  src_has_kwdef = any(p.get('default') for p in params if p['kind'] == 'ko')
  r = draw(st.integers(0, 9))
  if r < 3 and npos:
    choice = draw(st.sampled_from(['none', 'empty'] + [str(i) for i in range(1, npos + 1)] * 2))
    if choice in ('none', 'empty') and src_has_def and 'no_cleared_defaults' in EXCL:
      # known finding F24: cleared defaults come back as None placeholders
      spec['excluded'].append('no_cleared_defaults')
      choice = str(draw(st.integers(1, npos)))
    post['defaults'] = choice
  r = draw(st.integers(0, 9))
  if r < 3 and nko:
    sub = [n for n in ko if draw(st.booleans())]
    choice = draw(st.sampled_from(['none', 'set', 'set']))
    if choice == 'set':
      choice = sub
    if (choice == 'none' or not choice) and src_has_kwdef and 'no_cleared_defaults' in EXCL:
      spec['excluded'].append('no_cleared_defaults')
      choice = [ko[0]] if not sub else sub
    post['kwdefaults'] = choice
  if post:
    spec['post'] = post
  # ---- closure
  free = []
  if nested:
    nfree = draw(st.sampled_from([0, 1, 1, 2, 2, 3, 3, 4]))
    names = draw(st.permutations(FREE_NAMES))[:nfree + 2]
    for n in names[:nfree]:
      v = {'name': n, 'level': 2 if draw(st.integers(0, 4)) == 0 else 1,
           'assigned': draw(st.integers(0, 5)) != 0, 'late': draw(st.integers(0, 3)) == 0,
           'uses': sorted(set(draw(st.lists(st.sampled_from(['read', 'read', 'nested']), min_size=0, max_size=2))))}
      free.append(v)
    spec['uncaptured'] = list(names[nfree:nfree + draw(st.integers(0, 2))])
    spec['sib_first'] = draw(st.booleans())
    if not meth:
      shape = draw(st.sampled_from(['one'] * 6 + ['copies', 'copies', 'inloop', 'inloop']))
      if shape == 'copies':
        spec['copies'] = draw(st.integers(2, 3))
      elif shape == 'inloop':
        spec['inloop'] = draw(st.integers(2, 3))
        spec['read_loopvar'] = draw(st.booleans())
  spec['free'] = free
  if meth:
    spec['super'] = draw(st.booleans())
    # receiver of the bound method: instance or (classmethod) the class; flavour of its truth value / equality / hash
    spec['meth'] = draw(st.sampled_from(['instance'] * 4 + ['classmethod']))
    flav = INST_CM if spec['meth'] == 'classmethod' else sorted(INST_DUNDERS)
    spec['inst'] = draw(st.sampled_from(['plain', 'len', 'bool'] + flav + (['list_sub'] if 'list_sub' in flav else [])))
    spec['inst_on'] = draw(st.booleans())
    if spec['meth'] == 'instance':
      spec['callable'] = draw(st.integers(0, 2)) == 0
  spec['gread'] = draw(st.booleans())
  spec['gwread'] = draw(st.integers(0, 3)) == 0
  # ---- body statements
  stmts = []
  if not lam:
    mut_params = [p['name'] for p in params if MUTABLE.get(p.get('default'))]
    for _ in range(draw(st.integers(0, 4))):
      ops = ['grebind']
      if free:
        ops += ['rebind'] * 4 + ['nested'] * 2
      if mut_params:
        ops += ['mutdef'] * 2
      ops += ['local'] * 3
      op = draw(st.sampled_from(ops))
      if op == 'local':
        pool = ['GX'] * 4 + ['GY', 'lv_', 'lv_'] + [p['name'] for p in params] + list(spec.get('uncaptured', []))
        stmts.append({'op': op, 'name': draw(st.sampled_from(pool)), 'ctx': draw(st.sampled_from(CTXS)),
                      'mode': draw(st.sampled_from(['wo', 'rmw', 'rmw'])), 'decl': draw(st.sampled_from(LOCAL_DECLS)),
                      'order': draw(st.sampled_from(['hcf', 'hfc', 'hfc', 'fhc'])), 'init': draw(st.integers(0, 3)) != 0})
      elif op == 'rebind':
        stmts.append({'op': op, 'var': draw(st.sampled_from([v['name'] for v in free])),
                      'ctx': draw(st.sampled_from(CTXS)), 'mode': draw(st.sampled_from(['wo', 'wo', 'rmw']))})
      elif op == 'grebind':
        stmts.append({'op': op, 'ctx': draw(st.sampled_from(CTXS)), 'mode': draw(st.sampled_from(['wo', 'wo', 'rmw']))})
      elif op == 'nested':
        stmts.append({'op': op, 'var': draw(st.sampled_from([v['name'] for v in free])),
                      'form': draw(st.sampled_from(['def', 'lambda', 'uncalled']))})
      else:
        stmts.append({'op': op, 'param': draw(st.sampled_from(mut_params))})
    if kind in ('nest_def', 'mod_def'):
      spec['deco'] = draw(st.sampled_from([[]] * 5 + [['reg'], ['wrap'], ['regarg'], ['reg', 'wrap'], ['wrap', 'regarg']]))
  spec['stmts'] = stmts
  return spec


def n_targets(spec):
  if not is_nested(spec['kind']):
    return 1
  if is_method(spec['kind']):
    return 1
  if spec.get('inloop'):
    return spec['inloop']
  return max(1, spec.get('copies', 1))


def var_keys(spec):
  if not is_nested(spec['kind']):
    return []
  copies = 1 if (is_method(spec['kind']) or spec.get('inloop')) else max(1, spec.get('copies', 1))
  return ['%s@%d' % (v['name'], c) for c in range(copies) for v in spec.get('free', [])]


@st.composite
def bindings(draw, spec):
  ps = spec['params']
  posn = [p['name'] for p in ps if p['kind'] in ('po', 'pk')]
  has_va = any(p['kind'] == 'va' for p in ps)
  has_vk = any(p['kind'] == 'vk' for p in ps)
  style = draw(st.integers(0, 9))
  npos = draw(st.integers(0, len(posn)))
  if has_va and draw(st.booleans()):
    npos = len(posn) + draw(st.integers(0, 2))
  pos = [draw(VALS) for _ in range(npos)]
  kw = []
  for i, p in enumerate(ps):
    if p['kind'] in ('va', 'vk'):
      continue
    bound_pos = p['kind'] in ('po', 'pk') and i < npos
    if p['kind'] == 'po':
      want = False
    elif bound_pos:
      want = False
    elif p.get('default'):
      want = draw(st.booleans())
    else:
      want = True
    if style == 0:  # noise: flip a decision (missing required / duplicate / positional-only by keyword)
      if draw(st.integers(0, 2)) == 0:
        want = not want
    if want:
      kw.append([p['name'], draw(VALS)])
  if style == 1 or (has_vk and style in (2, 3)):
    kw.append([draw(st.sampled_from(['zq', 'extra'])), draw(VALS)])
  if style == 4 and not has_va:
    pos.append(draw(VALS))
  kw = draw(st.permutations(kw)) if kw else kw
  return {'pos': pos, 'kw': [list(x) for x in kw]}


@st.composite
def cases(draw, maxk=2):
  spec = draw(specs(maxk))
  nt = n_targets(spec)
  keys = var_keys(spec)
  script = []
  nops = draw(st.integers(3, 8))
  meth = is_method(spec['kind'])
  routes = ['direct'] * 5 + ['convert'] * 2 + ['cc', 'inner', 'inner']
  if meth and spec.get('meth') != 'classmethod':
    routes += ['inner_attr']
    if spec.get('callable'):
      routes += ['convert_obj', 'inner_obj', 'inner_obj'] * 2
  for _ in range(nops):
    kinds = ['call'] * 6 + ['gset']
    if keys:
      kinds += ['poke'] * 3 + ['drop']
    if meth and spec.get('inst') in ('len', 'bool', 'list_sub'):
      kinds += ['toggle'] * 2
    k = draw(st.sampled_from(kinds))
    if k == 'call':
      step = {'op': 'call', 'ti': draw(st.integers(0, nt - 1)), 'side': draw(st.sampled_from(['c', 'c', 'o'])),
              'bind': draw(bindings(spec))}
      # how the converted function is reached: direct = the function returned by to_graph / the private transpiler
      # (instance passed first); convert = api.convert(...)(target)(...); cc = api.converted_call(target, args, kwargs);
      # inner / inner_attr = the call is made from inside converted code (recursive conversion of the callee)
      step['route'] = draw(st.sampled_from(routes))
      if step['route'] in ('convert', 'cc', 'inner', 'convert_obj', 'inner_obj') and draw(st.integers(0, 3)) == 0:
        step['partial'] = {'npos': draw(st.integers(0, len(step['bind']['pos']))), 'kw': draw(st.booleans())}
      if step['route'] == 'cc':
        step['kwnone'] = draw(st.booleans())
      if meth and spec.get('meth') != 'classmethod' and step['route'] in ('convert', 'cc', 'inner'):
        # the plain function found on the class, instance passed explicitly
        step['unbound'] = draw(st.integers(0, 4)) == 0
      if step['side'] == 'c' and step['route'] in ('inner', 'inner_attr', 'inner_obj') and draw(st.integers(0, 5)) != 0:
        # shape of the call expression inside the converted driver (without: the fixed fn_(*a_, **k_) of the prelude)
        n_, names_ = dynamic_shape(step, meth)
        spec.setdefault('sites', []).append(draw(sites(n_, names_, 'attr' if step['route'] == 'inner_attr' else 'name')))
        step['site'] = len(spec['sites']) - 1
      script.append(step)
    elif k == 'toggle':
      script.append({'op': 'toggle', 'ti': draw(st.integers(0, nt - 1))})
    elif k == 'poke':
      script.append({'op': 'poke', 'key': draw(st.sampled_from(keys)), 'val': draw(st.integers(20, 29)),
                     'side': draw(st.sampled_from(['o', 'o', 'c']))})
    elif k == 'drop':
      script.append({'op': 'drop', 'key': draw(st.sampled_from(keys))})
    else:
      script.append({'op': 'gset', 'name': draw(st.sampled_from(['G0', 'GW', 'GX'])), 'val': draw(st.integers(200, 209))})
  cfg = {
      'entry': draw(st.sampled_from(['to_graph'] * 4 + ['private'] * 2)),
      'recursive': draw(st.sampled_from([True, True, False])),
      'features': draw(st.sampled_from([[], [], ['BUILTIN_FUNCTIONS'], ['EQUALITY_OPERATORS'], ['LISTS']])),
      'reconvert': draw(st.integers(0, 3)) == 0,
      'order': list(draw(st.permutations(list(range(nt))))),
      # AUTOGRAPH_STRICT_CONVERSION=1 during the mixed run: an error inside the call wrapper surfaces instead of silently
      # falling back to the unconverted function (which would hide a lost instance behind an equal result)
      'strict': draw(st.sampled_from([True, True, False])),
  }
  return {'spec': spec, 'script': script, 'config': cfg}


# --------------------------------------------------------------------------------------------------
# oracle

def _features(names):
  from malt.core import converter
  if not names:
    return None
  return tuple(converter.Feature[n] for n in names)


def _convert(fn, cfg, tr):
  feats = _features(cfg.get('features'))
  if cfg.get('entry', 'to_graph') == 'private':
    return harness.convert_private(tr, fn, harness.options(recursive=cfg.get('recursive', True), features=feats))
  return api.to_graph(fn, recursive=cfg.get('recursive', True), experimental_optional_features=feats)


def _exc_name(e):
  if isinstance(e, NameError):
    return 'NameError'
  return type(e).__name__


def _outcome(fn, args, kwargs):
  try:
    return ['ok', repr(fn(*args, **kwargs))]
  except Exception as e:  # the property compares exception types
    return ['exc', _exc_name(e)]


def _truth(o):
  try:
    return bool(o)
  except Exception:
    return None


def _driver(name, mod, cfg, tr, drivers, fails_out):
  if name not in drivers:
    fn = getattr(mod, name)
    feats = _features(cfg.get('features'))
    try:
      if cfg.get('entry', 'to_graph') == 'private':
        drivers[name] = harness.convert_private(tr, fn, harness.options(recursive=True, features=feats))
      else:
        drivers[name] = api.to_graph(fn, recursive=True, experimental_optional_features=feats)
    except Exception as e:
      fails_out.append(('convert-driver:' + harness.exc_bucket(e), {'exc': repr(e)[:500], 'driver': name}))
      drivers[name] = fn
  return drivers[name]


def _dynamic_call(step, target, ref, recv, pos, kw, mod, cfg, tr, drivers, fails_out, sites_=None, stats=None):
  """A call of the original `target` (function or bound method) that reaches its converted version through dynamic
  conversion. Must behave like target(*pos, **kw)."""
  from malt.core import converter
  route = step['route']
  feats = _features(cfg.get('features'))
  rec = cfg.get('recursive', True)
  callee, pos2, kw2 = target, list(pos), dict(kw)
  if route in ('convert_obj', 'inner_obj'):
    callee = recv
    route = route[:-4]
  elif step.get('unbound') and recv is not None and route != 'inner_attr':
    callee, pos2 = ref, [recv] + pos2
  part = step.get('partial')
  if part and route != 'inner_attr':
    n = min(part['npos'], len(pos2))
    frozen = kw2 if part['kw'] else {}
    callee = functools.partial(callee, *pos2[:n], **frozen)
    pos2, kw2 = pos2[n:], ({} if part['kw'] else kw2)
  if route == 'convert':
    return _outcome(api.convert(recursive=rec, optional_features=feats)(callee), pos2, kw2)
  if route == 'cc':
    opts = converter.ConversionOptions(recursive=rec, user_requested=True, optional_features=feats)
    kwarg = None if (not kw2 and step.get('kwnone')) else kw2
    return _outcome(api.converted_call, (callee, tuple(pos2), kwarg), {'options': opts})
  site = None
  if route in ('inner', 'inner_attr') and step.get('site') is not None and sites_ and step['site'] < len(sites_):
    site = sites_[step['site']]
    if not site_fits(site, pos2, kw2) or (site.get('callee') == 'attr') != (route == 'inner_attr'):
      site = None
  if site is not None:
    if stats is not None:
      what = ('partial' if isinstance(callee, functools.partial) else
              'callable-object' if (callee is recv and route == 'inner') else
              'attribute-call' if route == 'inner_attr' else
              'bound-method' if inspect.ismethod(callee) else 'function')
      labels = site_labels(site, pos2)
      for l_ in labels + ['site:callee=' + what]:
        stats[l_] = stats.get(l_, 0) + 1
      if 'site:lone-star-not-a-tuple' in labels and what != 'function':
        l_ = 'site:lone-star-not-a-tuple->' + what
        stats[l_] = stats.get(l_, 0) + 1
    drv = _driver('drv%d_' % step['site'], mod, cfg, tr, drivers, fails_out)
    return _outcome(drv, [recv if route == 'inner_attr' else callee] + site_args(site, pos2, kw2), {})
  if route == 'inner':
    return _outcome(_driver('drive', mod, cfg, tr, drivers, fails_out), (callee, tuple(pos2), kw2), {})
  if route == 'inner_attr':
    return _outcome(_driver('drive_attr', mod, cfg, tr, drivers, fails_out), (recv, tuple(pos2), kw2), {})
  raise ValueError('unknown route %r' % route)


def _peek(env, mod):
  cells = {}
  for k in sorted(env['peek']):
    cells[k] = _outcome(env['peek'][k], (), {})
  dflt = []
  for r in env['refs']:
    dflt.append([repr(r.__defaults__), repr(r.__kwdefaults__)])
  md = mod.__dict__
  return {'cells': cells, 'globals': [[n, repr(md[n])] for n in WATCHED_GLOBALS if n in md], 'defaults': dflt}


def _cellmap(fn):
  return dict(zip(fn.__code__.co_freevars, fn.__closure__ or ()))


def static_clauses(ref, conv, mod, is_bound_method, fails, tag):
  """Attribute oracles for one conversion. Appends (bucket, detail)."""
  if not inspect.isfunction(conv):
    fails.append(('type:not-a-function', {'got': repr(type(conv)), 'conversion': tag}))
    return
  # ---- signature
  try:
    so, sc = inspect.signature(ref), inspect.signature(conv)
  except Exception as e:
    fails.append(('sig:exc:' + type(e).__name__, {'exc': repr(e), 'conversion': tag}))
    return
  po = [(p.name, str(p.kind)) for p in so.parameters.values()]
  pc = [(p.name, str(p.kind)) for p in sc.parameters.values()]
  if po != pc:
    fails.append(('sig:params', {'orig': str(so), 'conv': str(sc), 'conversion': tag}))
  else:
    do = [p.default is not inspect.Parameter.empty for p in so.parameters.values()]
    dc = [p.default is not inspect.Parameter.empty for p in sc.parameters.values()]
    if do != dc:
      fails.append(('sig:default-presence', {'orig': str(so), 'conv': str(sc), 'conversion': tag}))
    elif any(a.default is not b.default for a, b in zip(so.parameters.values(), sc.parameters.values())):
      pass  # reported by the identity clause below
    elif so != sc:
      fails.append(('sig:annotations', {'orig': str(so), 'conv': str(sc), 'conversion': tag}))
  co, cc = ref.__code__, conv.__code__
  if (co.co_argcount, co.co_posonlyargcount, co.co_kwonlyargcount, co.co_flags & 0x0c) != (
      cc.co_argcount, cc.co_posonlyargcount, cc.co_kwonlyargcount, cc.co_flags & 0x0c):
    fails.append(('sig:code-counts', {'orig': [co.co_argcount, co.co_posonlyargcount, co.co_kwonlyargcount, co.co_flags & 0x0c],
                                      'conv': [cc.co_argcount, cc.co_posonlyargcount, cc.co_kwonlyargcount, cc.co_flags & 0x0c],
                                      'conversion': tag}))
  # ---- default objects
  d_o, d_c = ref.__defaults__ or (), conv.__defaults__ or ()
  if len(d_o) != len(d_c):
    fails.append(('defaults:count', {'orig': repr(ref.__defaults__), 'conv': repr(conv.__defaults__), 'conversion': tag}))
  elif any(a is not b for a, b in zip(d_o, d_c)):
    fails.append(('defaults:identity', {'orig': repr(ref.__defaults__), 'conv': repr(conv.__defaults__), 'conversion': tag}))
  k_o, k_c = ref.__kwdefaults__ or {}, conv.__kwdefaults__ or {}
  if set(k_o) != set(k_c):
    fails.append(('kwdefaults:keys', {'orig': repr(ref.__kwdefaults__), 'conv': repr(conv.__kwdefaults__), 'conversion': tag}))
  elif any(k_o[k] is not k_c[k] for k in k_o):
    fails.append(('kwdefaults:identity', {'orig': repr(ref.__kwdefaults__), 'conv': repr(conv.__kwdefaults__), 'conversion': tag}))
  # ---- globals
  if conv.__globals__ is not ref.__globals__ or conv.__globals__ is not mod.__dict__:
    fails.append(('globals:identity', {'same_keys': sorted(conv.__globals__) == sorted(ref.__globals__), 'conversion': tag}))
  # ---- cells
  mo, mc = _cellmap(ref), _cellmap(conv)
  missing = sorted(n for n in mo if n not in mc)
  if missing:
    fails.append(('cells:missing', {'missing': missing, 'orig': sorted(mo), 'conv': sorted(mc), 'conversion': tag}))
  else:
    wrong = sorted(n for n in mo if mc[n] is not mo[n])
    if wrong:
      others = {n: [m for m in mo if mc[n] is mo[m]] for n in wrong}
      fails.append(('cells:identity', {'wrong': wrong, 'bound_to_cell_of': others, 'orig': sorted(mo), 'conv': sorted(mc),
                                       'conversion': tag}))
  # ---- bound methods take the instance first
  if is_bound_method:
    names = list(sc.parameters)
    first = list(so.parameters)[:1]   # the unbound original: (self, ...) or, for a classmethod, (cls, ...)
    if not names or names[:1] != first or names[0] not in ('self', 'cls'):
      fails.append(('method:instance-first', {'conv': str(sc), 'conversion': tag}))


def _run_script(script, env, mod, convs, cfg, tr, mixed, fails_out, stats=None, sites_=None):
  """Executes the script; returns the list of observations. On env B (mixed) steps with side 'c'
  go through converted functions."""
  obs = []
  conv_setters = {}
  drivers = {}
  for step in script:
    op = step['op']
    side = step.get('side', 'o') if mixed else 'o'
    if op == 'call':
      ti = step['ti']
      if ti >= len(env['targets']):
        obs.append(None)
        continue
      pos, kw = list(step['bind']['pos']), {k: v for k, v in step['bind']['kw']}
      pos = [list(x) if isinstance(x, list) else x for x in pos]
      kw = {k: (list(v) if isinstance(v, list) else v) for k, v in kw.items()}
      route = step.get('route', 'direct')
      recv = env['selfs'][ti]
      if side == 'c' and stats is not None:
        stats['route:' + route] = stats.get('route:' + route, 0) + 1
        if step.get('partial') and route not in ('direct', 'inner_attr'):
          stats['partial'] = stats.get('partial', 0) + 1
        if step.get('unbound') and recv is not None and route in ('convert', 'cc', 'inner'):
          stats['unbound'] = stats.get('unbound', 0) + 1
        if recv is not None:
          tv = _truth(recv)
          if tv is not True:
            k_ = 'route:%s:%s' % (route, 'receiver-falsy-at-call' if tv is False else 'receiver-truth-raises')
            stats[k_] = stats.get(k_, 0) + 1
      if side == 'c' and route != 'direct':
        r = _dynamic_call(step, env['targets'][ti], env['refs'][ti], recv, pos, kw, mod, cfg, tr, drivers, fails_out,
                          sites_, stats)
      elif side == 'c':
        if recv is not None:
          pos = [recv] + pos
        r = _outcome(convs[ti], pos, kw)
      else:
        r = _outcome(env['targets'][ti], pos, kw)
    elif op == 'toggle':
      ti = step['ti']
      recv = env['selfs'][ti] if ti < len(env['selfs']) else None
      if recv is None:
        obs.append(None)
        continue
      recv.on = not recv.on
      if isinstance(recv, list):
        if recv.on:
          recv.append(1)
        else:
          del recv[:]
      r = ['ok', repr(recv.on)]
    elif op == 'poke':
      f = env['poke'].get(step['key'])
      if f is None:
        obs.append(None)
        continue
      if side == 'c':
        if step['key'] not in conv_setters:
          try:
            conv_setters[step['key']] = _convert(f, cfg, tr)
          except Exception as e:
            fails_out.append(('convert-sibling:' + harness.exc_bucket(e), {'exc': repr(e)[:500], 'key': step['key']}))
            conv_setters[step['key']] = f
        f = conv_setters[step['key']]
      r = _outcome(f, (step['val'],), {})
    elif op == 'drop':
      f = env['drop'].get(step['key'])
      if f is None:
        obs.append(None)
        continue
      r = _outcome(f, (), {})
    elif op == 'gset':
      setattr(mod, step['name'], step['val'])
      r = ['ok', 'None']
    else:
      r = None
    obs.append({'result': r, 'state': _peek(env, mod)})
  return obs


def _first_diff(script, oa, ob):
  for i, (step, a, b) in enumerate(zip(script, oa, ob)):
    if a is None or b is None:
      continue
    side = step.get('side', 'o')
    op = step['op']
    if a['result'] != b['result']:
      ra, rb = a['result'], b['result']
      route = step.get('route', 'direct')
      rt = '' if route == 'direct' else ('[%s%s]' % (route, '+partial' if step.get('partial') else ''))
      if op == 'call' and side == 'c':
        if ra[0] == 'exc' and ra[1] == 'TypeError' and rb[0] == 'ok':
          bkt = 'call:accepts-call-original-rejects'
        elif ra[0] == 'ok' and rb[0] == 'exc' and rb[1] == 'TypeError':
          bkt = 'call:rejects-call-original-accepts'
        elif ra[0] == 'ok' and rb[0] == 'ok':
          bkt = 'call:result'
        else:
          bkt = 'call:outcome:%s->%s' % (ra[1] if ra[0] == 'exc' else 'ok', rb[1] if rb[0] == 'exc' else 'ok')
      elif op == 'call':
        bkt = 'state:original-call-differs-after-converted-steps'
      else:
        bkt = '%s:result' % op
      if op == 'call' and side == 'c':
        bkt += rt
      return bkt, {'step': i, 'op': step, 'reference': ra, 'got': rb}
    sa, sb = a['state'], b['state']
    if sa != sb:
      which = 'cell' if sa['cells'] != sb['cells'] else ('global' if sa['globals'] != sb['globals'] else 'defaults')
      if op == 'call' and side == 'c':
        bkt = 'writethrough:converted->%s' % which
      elif op == 'poke' and side == 'c':
        bkt = 'writethrough:converted-sibling->%s' % which
      else:
        bkt = 'state:%s-after-%s' % (which, op)
      diff = {}
      for part in ('cells', 'globals', 'defaults'):
        if sa[part] != sb[part]:
          diff[part] = {'reference': sa[part], 'got': sb[part]}
      return bkt, {'step': i, 'op': step, 'diff': diff}
  return None


def get_src(case):
  if case.get('src'):
    return case['src']
  return render(case['spec'])


def run_case(case):
  """Executes all oracles. Returns (fails, info)."""
  fails = []
  info = {'evals': 0, 'converted': False, 'conv_calls': 0, 'orig_ok': 0, 'orig_typeerror': 0, 'orig_otherexc': 0,
          'nfree': 0, 'param_kinds': 0}
  cfg = case.get('config', {})
  src = get_src(case)
  try:
    # malt's conversion cache treats *equal* code objects (same name, bytecode, constants and first line;
    # the file name is not compared) as the same function, so look-alike functions of earlier cases in this
    # process would hand their cached factory (built from another source text) to this case. That is a cache
    # matter (C10); here every case starts with an empty public cache. Cache hits inside a case (second
    # conversion, closures sharing a code object) are still exercised.
    api._TRANSPILER._cache._cache.clear()
    if case.get('prior_src'):
      # hand-written replays only: a look-alike module converted first, sharing the cache with this case
      modP = harness.load_module(case['prior_src'])
      _KEEP.append(modP)
      for fn in modP.build()['targets']:
        _convert(fn, cfg, None)
      sys.modules.pop(modP.__name__, None)
      os.unlink(modP.__file__)
    modA = harness.load_module(src)
    modB = harness.load_module(src)
  except Exception as e:
    info['generator_slip'] = repr(e)
    return fails, info
  _KEEP.append((modA, modB))
  try:
    try:
      envA, envB = modA.build(), modB.build()
    except Exception as e:
      info['generator_slip'] = 'build: ' + repr(e)
      return fails, info
    nt = len(envB['targets'])
    ref0 = envB['refs'][0]
    info['nfree'] = len(ref0.__code__.co_freevars)
    kinds = set(str(p.kind) for p in inspect.signature(ref0).parameters.values() if p.name != 'self')
    info['param_kinds'] = len(kinds)
    info['kinds'] = sorted(kinds)
    info['unassigned_cells'] = 0
    for c in (ref0.__closure__ or ()):
      try:
        c.cell_contents
      except ValueError:
        info['unassigned_cells'] += 1
    tr = harness.PrivateTranspiler() if cfg.get('entry') == 'private' else None
    order = [i for i in cfg.get('order', range(nt)) if i < nt] or list(range(nt))
    for i in range(nt):
      if i not in order:
        order.append(i)
    logn, dlogn = len(modB.LOG), len(modB.DLOG)
    convs = [None] * nt
    rounds = 2 if cfg.get('reconvert') else 1
    for rnd in range(rounds):
      for ti in order:
        try:
          conv = _convert(envB['targets'][ti], cfg, tr)
        except Exception as e:
          fails.append(('convert:' + harness.exc_bucket(e), {'exc': repr(e)[:600], 'target': ti}))
          return fails, info
        convs[ti] = conv
        info['evals'] += 1
        static_clauses(envB['refs'][ti], conv, modB, envB['selfs'][ti] is not None, fails,
                       'target %d round %d' % (ti, rnd))
    info['converted'] = True
    if len(modB.LOG) != logn:
      fails.append(('noreeval:default-expression-evaluated-by-conversion', {'new_log_entries': modB.LOG[logn:][:10]}))
    if len(modB.DLOG) != dlogn:
      fails.append(('noreeval:decorator-applied-by-conversion', {'new_entries': modB.DLOG[dlogn:][:10]}))
    if fails:
      return fails, info
    script = case.get('script', [])
    side_fails = []
    oa = _run_script(script, envA, modA, None, cfg, None, False, side_fails)
    stats = info['stats'] = {}
    old_strict = os.environ.get('AUTOGRAPH_STRICT_CONVERSION')
    if cfg.get('strict'):
      os.environ['AUTOGRAPH_STRICT_CONVERSION'] = '1'
    try:
      ob = _run_script(script, envB, modB, convs, cfg, tr, True, side_fails, stats, (case.get('spec') or {}).get('sites'))
    finally:
      if old_strict is None:
        os.environ.pop('AUTOGRAPH_STRICT_CONVERSION', None)
      else:
        os.environ['AUTOGRAPH_STRICT_CONVERSION'] = old_strict
    fails += side_fails
    info['evals'] += len(script)
    for step, a in zip(script, oa):
      if step['op'] == 'call' and a is not None:
        if step.get('side') == 'c':
          info['conv_calls'] += 1
        r = a['result']
        if r[0] == 'ok':
          info['orig_ok'] += 1
        elif r[1] == 'TypeError':
          info['orig_typeerror'] += 1
        else:
          info['orig_otherexc'] += 1
    d = _first_diff(script, oa, ob)
    if d is not None:
      fails.append(d)
    elif list(modA.LOG) != list(modB.LOG):
      fails.append(('noreeval:default-expression-evaluated-at-call', {'reference': modA.LOG[-8:], 'got': modB.LOG[-8:]}))
    elif list(modA.DLOG) != list(modB.DLOG):
      fails.append(('noreeval:decorator-applied-at-call', {'reference': modA.DLOG[-8:], 'got': modB.DLOG[-8:]}))
    return fails, info
  finally:
    for m in (modA, modB):
      try:
        sys.modules.pop(m.__name__, None)
        os.unlink(m.__file__)
      except OSError:
        pass


def classes_of(case, info):
  spec, cfg = case['spec'], case['config']
  cls = ['kind=' + spec['kind'], 'entry=' + cfg['entry'], 'recursive=%s' % cfg['recursive'],
         'features=' + '+'.join(cfg['features']), 'strict-conversion=%s' % bool(cfg.get('strict'))]
  if cfg['reconvert']:
    cls.append('reconverted(cache-hit)')
  ps = spec['params']
  for k in ('po', 'pk', 'va', 'ko', 'vk'):
    if any(p['kind'] == k for p in ps):
      cls.append('param:' + k)
  cls.append('param_kinds=%d' % info.get('param_kinds', 0))
  if any(p.get('default') for p in ps if p['kind'] in ('po', 'pk')):
    cls.append('has:positional-defaults')
  if any(p.get('default') for p in ps if p['kind'] == 'ko'):
    cls.append('has:kwonly-defaults')
  ko = [p for p in ps if p['kind'] == 'ko']
  if ko and not any(p.get('default') for p in ko):
    cls.append('has:kwonly-all-required')
  if any(MUTABLE.get(p.get('default')) for p in ps):
    cls.append('has:mutable-default')
  if any(p.get('default') in ('zero', 'none', 'tuple0') for p in ps):
    cls.append('has:falsy-default')
  if any(p.get('default') == 'local' for p in ps) and is_nested(spec['kind']):
    cls.append('has:default-from-enclosing-local')
  if any(p.get('anno') for p in ps) or spec.get('ret_anno'):
    cls.append('has:annotations')
  if spec.get('post'):
    cls.append('has:defaults-replaced-after-definition')
  for e in spec.get('excluded', []):
    cls.append('excluded:' + e)
  cls.append('freevars=%d' % info.get('nfree', 0))
  if info.get('unassigned_cells'):
    cls.append('has:unassigned-cell-at-conversion')
  if is_nested(spec['kind']):
    if any(v.get('level') == 2 for v in spec['free']):
      cls.append('has:two-level-closure')
    if spec.get('uncaptured'):
      cls.append('has:uncaptured-enclosing-locals')
    if spec.get('copies', 1) > 1:
      cls.append('shape:factory-called-repeatedly(shared code object)')
    if spec.get('inloop'):
      cls.append('shape:def-in-loop(shared code object and cells)')
  fv = {v['name'] for v in spec.get('free', [])}
  for s in spec.get('stmts', []):
    if s['op'] == 'rebind' and s['var'] in fv:
      cls.append('rebind:%s:%s' % (s['ctx'], s['mode']))
    elif s['op'] == 'grebind':
      cls.append('global-rebind:%s:%s' % (s['ctx'], s['mode']))
    elif s['op'] == 'nested' and s['var'] in fv:
      cls.append('nested-use:' + s['form'])
    elif s['op'] == 'mutdef':
      cls.append('mutates-default')
    elif s['op'] == 'local' and s['name'] not in fv:
      what = ('param' if any(p['name'] == s['name'] for p in ps) else
              'shadows-module-global' if s['name'] in ('GX', 'GY') else
              'shadows-uncaptured-enclosing-local' if s['name'] in spec.get('uncaptured', []) else 'plain-local')
      cls.append('local-rebind:%s:%s' % (what, s['ctx']))
      cls.append('local-rebind:nested-decl=%s' % s.get('decl', 'none'))
      inflow = s['ctx'] in ('if', 'ifelse', 'for', 'while')
      if s.get('decl', 'none').startswith('g') and inflow:
        cls.append('local-rebind:in-control-flow+nested-global-decl(%s)' % what)
      if s.get('decl') == 'nonlocal' and inflow:
        cls.append('local-rebind:in-control-flow+nested-nonlocal-decl')
      if not s.get('init', True) and what != 'param':
        cls.append('local-rebind:first-bound-inside-statement')
  if spec.get('deco'):
    cls.append('decorated:' + '+'.join(spec['deco']))
  if spec.get('super'):
    cls.append('method-uses-super')
  if is_method(spec['kind']):
    cls.append('method=' + spec.get('meth', 'instance'))
    cls.append('receiver=' + spec.get('inst', 'plain'))
    if spec.get('callable') and spec.get('meth') != 'classmethod':
      cls.append('receiver-is-callable-object')
    fr = falsy_receiver(spec)
    if fr is not False:
      cls.append('receiver-falsy-at-conversion' if fr else 'receiver-truth-raises-at-conversion')
  for k_, n_ in sorted((info.get('stats') or {}).items()):
    if n_:
      cls.append('callee:' + k_ if k_ in ('partial', 'unbound') else k_)   # route:* and site:* labels come prefixed
  if any(st_['op'] == 'toggle' for st_ in case['script']):
    cls.append('script:toggles-receiver-truth')
  for st_ in case['script']:
    if st_['op'] == 'poke' and st_['side'] == 'c':
      cls.append('script:rebind-through-converted-sibling')
      break
  if info.get('orig_typeerror'):
    cls.append('script:has-illegal-binding')
  if info.get('orig_ok'):
    cls.append('script:has-legal-binding')
  if info.get('orig_otherexc'):
    cls.append('script:has-other-exception')
  if info.get('generator_slip'):
    cls.append('generator_slip')
  return sorted(set(cls))


def shard(ctx, acc):
  n = ctx.share('cases')
  maxk = ctx.budget.get('maxk', 2)

  def body(case):
    case = {'spec': case['spec'], 'script': case['script'], 'config': case['config']}
    fails, info = run_case(case)
    if info.get('generator_slip'):
      acc.notes.append(info['generator_slip'][:300])
    nontriv = (info.get('param_kinds', 0) >= 2 and info.get('nfree', 0) >= 1 and info.get('converted', False)
               and info.get('conv_calls', 0) >= 1)
    src = get_src(case)
    sample = None
    size = len(src)
    if nontriv and (len(acc.samples) < acc.MAX_SAMPLES or size > (acc.biggest[0] if acc.biggest else 0)):
      sample = {'src': src[len(PRELUDE):], 'script': case['script'], 'config': case['config']}
    acc.case(key=common.h8([src, case['script'], case['config']]), nontrivial=nontriv, classes=classes_of(case, info),
             sample=sample, size=size, n=max(1, info.get('evals', 0)))
    acc.count('cases')
    acc.count('calls:orig-ok', info.get('orig_ok', 0))
    acc.count('calls:orig-TypeError', info.get('orig_typeerror', 0))
    acc.count('calls:orig-other-exception', info.get('orig_otherexc', 0))
    acc.count('calls:through-converted', info.get('conv_calls', 0))
    seen = set()
    for b, d in fails:
      if b not in seen:
        seen.add(b)
        c2 = dict(case)
        c2['src'] = src
        acc.fail(b, c2, d)

  common.hyp_run(ctx, cases(maxk), body, n)


def replay(case):
  fails, info = run_case(case)
  if info.get('generator_slip'):
    raise RuntimeError('case does not load: ' + info['generator_slip'])
  out, seen = [], set()
  for b, d in fails:
    if b not in seen:
      seen.add(b)
      out.append({'bucket': b, 'detail': d})
  return out


# --------------------------------------------------------------------------------------------------
# shrinking (spec-level: the module is re-rendered from the reduced spec)

def _spec_candidates(case):
  import copy
  spec = case['spec']
  # script first: cheapest
  for i in range(len(case['script']) - 1, -1, -1):
    c = copy.deepcopy(case)
    del c['script'][i]
    yield c
  for i in range(len(spec.get('stmts', [])) - 1, -1, -1):
    c = copy.deepcopy(case)
    del c['spec']['stmts'][i]
    yield c
  for i, s in enumerate(case['script']):
    if s['op'] == 'call' and s.get('partial'):
      c = copy.deepcopy(case)
      del c['script'][i]['partial']
      yield c
  if spec.get('inst', 'plain') not in ('plain', 'bool'):
    c = copy.deepcopy(case)
    c['spec']['inst'] = 'bool' if spec['inst'] == 'len' else 'plain'
    yield c
  if spec.get('meth') == 'classmethod':
    c = copy.deepcopy(case)
    c['spec']['meth'] = 'instance'
    yield c
  for key in ('deco', 'post', 'ret_anno', 'uncaptured', 'copies', 'super', 'gread', 'gwread'):
    if spec.get(key):
      c = copy.deepcopy(case)
      del c['spec'][key]
      yield c
  for i in range(len(spec.get('free', [])) - 1, -1, -1):
    c = copy.deepcopy(case)
    del c['spec']['free'][i]
    yield c
  for i in range(len(spec['params']) - 1, -1, -1):
    c = copy.deepcopy(case)
    del c['spec']['params'][i]
    yield c
    for key in ('anno', 'default'):
      if spec['params'][i].get(key):
        c = copy.deepcopy(case)
        del c['spec']['params'][i][key]
        yield c
  for i, s in enumerate(case['script']):
    if s['op'] == 'call' and (s['bind']['pos'] or s['bind']['kw']):
      for part in ('pos', 'kw'):
        for j in range(len(s['bind'][part])):
          c = copy.deepcopy(case)
          del c['script'][i]['bind'][part][j]
          yield c
  if case['config'].get('reconvert'):
    c = copy.deepcopy(case)
    c['config']['reconvert'] = False
    yield c


def shrink(case, bucket, deadline):
  if 'spec' not in case:
    return None
  cur = {k: v for k, v in case.items() if k != 'src'}
  progress = True
  while progress and time.time() < deadline:
    progress = False
    for cand in _spec_candidates(cur):
      if time.time() > deadline:
        break
      try:
        fl = replay(cand)
      except Exception:
        continue
      if any(f['bucket'] == bucket for f in fl):
        cur = cand
        progress = True
        break
  cur['src'] = render(cur['spec'])
  return cur
