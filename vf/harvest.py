"""Dev tool: validates seeded changes delivered by sub-agents and files them under /verif/seeded.
usage: python -m vf.harvest C05 [C06 ...]   (reads /tmp/seed_<ID>/out/{A,B})"""
import json, os, shutil, subprocess, sys, tempfile
from concurrent.futures import ThreadPoolExecutor
ROOT = os.path.dirname(os.path.dirname(os.path.abspath(__file__)))

def sh(cmd, **kw):
  return subprocess.run(cmd, capture_output=True, text=True, **kw)

def validate(pid, letter, rnd=1):
  src = '/tmp/seed%s_%s/out/%s' % ('' if rnd == 1 else str(rnd), pid, letter)
  out_letter = {1: {'A': 'A', 'B': 'B'}, 2: {'A': 'C', 'B': 'D'}, 3: {'A': 'E', 'B': 'F'}, 4: {'A': 'G', 'B': 'H'}}[rnd][letter]
  if not os.path.exists(os.path.join(src, 'patch.diff')):
    return (pid, letter, 'missing', '')
  d = tempfile.mkdtemp(prefix='vfseed_')
  try:
    repo = os.path.join(d, 'repo')
    shutil.copytree('/repo', repo, ignore=shutil.ignore_patterns('.git', '__pycache__', '*.egg-info'))
    r = sh(['patch', '-p1', '-s', '-i', os.path.join(src, 'patch.diff')], cwd=repo)
    if r.returncode:
      return (pid, letter, 'patch-does-not-apply-to-current-HEAD', r.stdout[-300:])
    env = dict(os.environ, PYTHONPATH=repo, PYTHONDONTWRITEBYTECODE='1')
    bad = sh(['/venv/bin/python', os.path.join(src, 'demo.py')], env=env, cwd=d)
    env0 = dict(os.environ, PYTHONPATH='/repo', PYTHONDONTWRITEBYTECODE='1')
    good = sh(['/venv/bin/python', os.path.join(src, 'demo.py')], env=env0, cwd=d)
    base = sh(['/venv/bin/python', '-m', 'vf.baseline', repo], cwd=ROOT, env=dict(os.environ, PYTHONPATH=ROOT))
    ok = bad.returncode != 0 and good.returncode == 0 and base.returncode == 0
    info = 'demo(mutant) rc=%s demo(unchanged) rc=%s baseline: %s' % (bad.returncode, good.returncode, base.stdout.splitlines()[0] if base.stdout else base.stderr[-200:])
    if ok:
      dst = os.path.join(ROOT, 'seeded', '%s-%s' % (pid, out_letter))
      os.makedirs(dst, exist_ok=True)
      for n in ('patch.diff', 'demo.py', 'notes.md'):
        if os.path.exists(os.path.join(src, n)):
          shutil.copy(os.path.join(src, n), os.path.join(dst, n))
      meta = {'property': pid, 'checks': [pid], 'origin': 'independent sub-agent given only the property text and a scratch worktree (round %d)' % rnd,
              'needs': open(os.path.join(src, 'notes.md')).read()[:1500] if os.path.exists(os.path.join(src, 'notes.md')) else '',
              'validated': {'demo_with_change_rc': bad.returncode, 'demo_unchanged_rc': good.returncode, 'pinned_suite': base.stdout.splitlines()[0],
                            'applied_to': sh(['git', '-C', '/repo', 'rev-parse', '--short', 'HEAD']).stdout.strip()},
              'detected_by': {}}
      mp = os.path.join(dst, 'meta.json')
      if os.path.exists(mp):
        old = json.load(open(mp)); meta['detected_by'] = old.get('detected_by', {}); meta['checks'] = old.get('checks', [pid])
      json.dump(meta, open(mp, 'w'), indent=1)
    return (pid, letter, 'OK' if ok else 'REJECTED', info)
  finally:
    shutil.rmtree(d, ignore_errors=True)

if __name__ == '__main__':
  jobs = []
  for a in sys.argv[1:]:
    pid, _, rnd = a.partition(':')
    for l in 'AB':
      jobs.append((pid, l, int(rnd or 1)))
  with ThreadPoolExecutor(8) as ex:
    for r in ex.map(lambda j: validate(*j), jobs):
      print(*r)
