#!/bin/sh
# dev tool: run every registered check at several seeds; prints one line per (check, seed)
# usage: ./sweep.sh "C01 C02" "1 2 3" [quick|thorough]
IDS="${1:-C01 C02 C03 C04 C05 C06 C07 C09 C13 C14 C15 C16 C20}"
SEEDS="${2:-1 2 3 4 5 6 7 8}"
TIER="${3:-quick}"
export VF_OUT="${VF_OUT:-/tmp/vf_sweep_out_$$}"
for id in $IDS; do
  for s in $SEEDS; do
    out=$(VERIF_SEED=$s ./check $id $TIER 2>&1)
    rc=$?
    echo "$id seed=$s rc=$rc $(echo "$out" | grep -E "^$id (quick|thorough)" | tail -1)"
    if [ $rc -ne 0 ]; then echo "$out" | grep -E "^(FAIL|VIOLATION|HARNESS)" | head -6 | cut -c1-400; fi
  done
done
rm -rf "$VF_OUT"
